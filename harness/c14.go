package main

import (
	"encoding/json"
	"fmt"
	"io"
	"strings"
	"time"

	"github.com/VolantMQ/vlapi/mqttp"
)

// C14: "out": a v5 (or v3.1.1) subscriber announcing Topic Alias Maximum m keeps what it sees on
// the wire (topic present?, alias property) for a generated sequence of topics with more distinct
// topics than m and recurrences.  "in": a v5 publisher sends (topic?, alias?) packets, including
// alias 0, aliases above the server maximum and unbound aliases; a '#' watcher records what is routed.

type c14Pkt struct {
	Topic *int `json:"t"` // nil = empty topic; topic index n >= 1 is "al/<n>"
	Alias *int `json:"a"`
	Auth  bool `json:"auth"`
}

type c14Case struct {
	Kind   string   `json:"kind"`
	V5     bool     `json:"v5,omitempty"`
	Max    int      `json:"max"`
	Topics []int    `json:"topics,omitempty"`
	Exp    []int    `json:"exp,omitempty"` // indices into Topics of messages published with expiry 1 s (elapsed when dequeued)
	Pkts   []c14Pkt `json:"pkts,omitempty"`
	// kind "bound": Distinct topics are published once each, then the first Repeat of them again
	Distinct int `json:"distinct,omitempty"`
	Repeat   int `json:"repeat,omitempty"`
	// kind "out": a retained message on topic Pre (0: none), published before the subscriber arrives by a 3.1.1 (or,
	// PreV5, a 5.0) client: the subscriber is sent it first, and what it binds or does not bind counts like any other
	Pre   int  `json:"pre,omitempty"`
	PreV5 bool `json:"prev5,omitempty"`
	// kind "out": the subscriber also announces Maximum Packet Size 60 and the topic names are 38 bytes long (MaxPkt); the
	// messages whose index is in Big carry 18 bytes: with their topic they do not fit and are dropped - BEFORE an alias is
	// bound for them, like the expired ones: the next message on that topic still has to introduce the alias
	MaxPkt bool  `json:"maxpkt,omitempty"`
	Big    []int `json:"big,omitempty"`
}

type c14Obs struct {
	// kind "bound": summary of a long stream (Max aliases, Distinct > Max distinct topics, then repeats)
	Recv, AliasMin, AliasMax, Mismatch, Undecodable int
	Out                                             [][2]*int `json:"out,omitempty"` // (topic idx or nil, alias or nil)
	Routed                                          []int     `json:"routed,omitempty"`
	Term                                            bool      `json:"term,omitempty"`
	Reason                                          int       `json:"reason,omitempty"`
	Err                                             string    `json:"err,omitempty"`
}

type c14Prop struct{}

func init() { props["C14"] = &c14Prop{} }

func (p *c14Prop) ID() string { return "C14" }
func (p *c14Prop) Header() string {
	return "From Coq Require Import List NArith.\nImport ListNotations.\nFrom VMQ Require Import model.Alias chk.C14chk.\n"
}
func (p *c14Prop) Parallel() int { return 8 }

func ip(i int) *int { return &i }

func (p *c14Prop) Gen(r *Rng, i int, tier string) interface{} {
	if i%25 == 12 {
		// unacknowledged aliased messages across a reconnect
		return &c14Case{Kind: "resume", V5: true, Max: []int{1, 2, 5}[r.Intn(3)], Distinct: 1 + r.Intn(4), Repeat: 1 + r.Intn(5)}
	}
	if i%50 == 49 {
		// every alias value gets bound, more topics follow, early topics recur
		m := []int{3, 17, 255, 256}[r.Intn(4)]
		return &c14Case{Kind: "bound", V5: true, Max: m, Distinct: m + 1 + r.Intn(5), Repeat: 3 + r.Intn(5)}
	}
	if i%2 == 0 {
		c := &c14Case{Kind: "out", V5: !r.Chance(15), Max: []int{0, 1, 2, 5, 65535}[r.Intn(5)]}
		distinct := 1 + r.Intn(8)
		n := 2 + r.Intn(20)
		for k := 0; k < n; k++ {
			c.Topics = append(c.Topics, 1+r.Intn(distinct))
			if r.Chance(12) {
				c.Exp = append(c.Exp, k)
			}
		}
		if r.Chance(30) {
			c.Pre = 1 + r.Intn(distinct)
			c.PreV5 = r.Chance(30)
		} else if c.V5 && c.Max > 0 && r.Chance(35) {
			c.MaxPkt = true
			for k := range c.Topics {
				if r.Chance(30) {
					c.Big = append(c.Big, k)
				}
			}
		}
		return c
	}
	c := &c14Case{Kind: "in", Max: []int{0, 2, 5}[r.Intn(3)]}
	n := 2 + r.Intn(12)
	var bound []int
	hostile := r.Chance(35) // most sequences are valid end to end; a third contain an invalid alias somewhere
	for k := 0; k < n; k++ {
		pk := c14Pkt{Auth: !r.Chance(10)}
		sel := r.Intn(10)
		if hostile && r.Chance(12) {
			sel = 9
		} else if sel == 9 {
			sel = 0
		}
		mx := c.Max
		if mx == 0 {
			// the broker announces no Topic Alias Maximum: a client that uses one anyway (hostile) is told 0x94 at its
			// first alias, whatever its value
			mx = 5
			if !hostile && sel >= 3 && sel <= 8 {
				sel = 0
			}
		}
		switch sel {
		case 0, 1, 2: // plain
			pk.Topic = ip(1 + r.Intn(4))
		case 3, 4, 5: // bind
			pk.Topic = ip(1 + r.Intn(4))
			pk.Alias = ip(1 + r.Intn(mx))
			// authorised or refused, the packet binds its alias
			bound = append(bound, *pk.Alias)
		case 6, 7, 8: // alias only: a bound alias unless the sequence is hostile
			if len(bound) > 0 && !(hostile && r.Chance(20)) {
				pk.Alias = ip(bound[r.Intn(len(bound))])
			} else if hostile {
				pk.Alias = ip(1 + r.Intn(mx))
			} else {
				pk.Topic = ip(1 + r.Intn(4))
			}
		default: // hostile
			switch r.Intn(3) {
			case 0:
				pk.Alias = ip(0)
				if r.Bool() {
					pk.Topic = ip(1)
				}
			case 1:
				pk.Alias = ip(c.Max + 1 + r.Intn(3))
				if r.Bool() {
					pk.Topic = ip(1)
				}
			default:
				// empty topic, no alias
			}
		}
		c.Pkts = append(c.Pkts, pk)
	}
	return c
}

func (p *c14Prop) Decode(raw json.RawMessage) (interface{}, error) {
	c := &c14Case{}
	return c, json.Unmarshal(raw, c)
}

func topicIdx(t string) *int {
	if t == "" {
		return nil
	}
	var n int
	if _, err := fmt.Sscanf(t, "al/%d", &n); err == nil {
		return &n
	}
	if _, err := fmt.Sscanf(t, "deny/%d", &n); err == nil {
		return &n
	}
	return ip(-1)
}

func (p *c14Prop) Run(ci interface{}) interface{} {
	c := ci.(*c14Case)
	obs := &c14Obs{}
	au := &progAuth{acl: func(_, _, topic string, write bool) bool { return !(write && strings.HasPrefix(topic, "deny/")) }}
	maxAlias := uint16(0)
	if c.Kind == "in" {
		maxAlias = uint16(c.Max)
	}
	b, err := NewBroker(BrokerOpts{MaxTopicAlias: maxAlias, Auth: []*progAuth{au}})
	if err != nil {
		obs.Err = err.Error()
		return obs
	}
	defer b.Close(10 * time.Second)
	if c.Kind == "bound" {
		return p.runBound(c, b)
	}
	if c.Kind == "resume" {
		return p.runResume(c, b)
	}
	if c.Kind == "out" {
		ver := mqttp.ProtocolV311
		if c.V5 {
			ver = mqttp.ProtocolV50
		}
		if c.Pre > 0 {
			pv := mqttp.ProtocolV311
			if c.PreV5 {
				pv = mqttp.ProtocolV50
			}
			rc := b.Dial()
			if _, err := rc.Connect(ConnectOpts{ID: "pre", Ver: pv, Clean: true}); err != nil {
				obs.Err = "pre: " + err.Error()
				return obs
			}
			tp := fmt.Sprintf("al/%d", c.Pre)
			_ = rc.Send(mkPublish(pv, tp, []byte{200}, 0, true, 0))
			dl := time.Now().Add(3 * time.Second)
			for time.Now().Before(dl) {
				if rr, _ := b.Topics.Retained(tp); len(rr) == 1 {
					break
				}
				time.Sleep(2 * time.Millisecond)
			}
		}
		sc := b.Dial()
		so := ConnectOpts{ID: "sub", Ver: ver, Clean: true, AliasMax: uint16(c.Max)}
		if c.MaxPkt && c.V5 {
			so.MaxPacket = 60
		}
		if _, err := sc.Connect(so); err != nil {
			obs.Err = "sub: " + err.Error()
			return obs
		}
		s := sc.Auto(false)
		_ = s.SendL(mkSubscribe(ver, 1, []string{"al/#"}, []byte{0}))
		if !s.WaitFor(5*time.Second, func() bool { return len(s.Others) >= 1 }) {
			obs.Err = "no suback"
			return obs
		}
		pc := b.Dial()
		if _, err := pc.Connect(ConnectOpts{ID: "pub", Ver: mqttp.ProtocolV50, Clean: true}); err != nil {
			obs.Err = "pub: " + err.Error()
			return obs
		}
		pa := pc.Auto(false)
		isExp := map[int]bool{}
		for _, k := range c.Exp {
			isExp[k] = true
		}
		isBig := map[int]bool{}
		if c.MaxPkt && c.V5 {
			for _, k := range c.Big {
				isBig[k] = true
			}
		}
		want := 0
		for k, t := range c.Topics {
			tn := fmt.Sprintf("al/%d", t)
			pl := []byte{byte(k)}
			if c.MaxPkt {
				tn = (tn + "/a-topic-name-of-thirty-eight-bytes-xx")[:38]
				if isBig[k] {
					pl = append(pl, make([]byte, 17)...)
				}
			}
			m := mkPublish(mqttp.ProtocolV50, tn, pl, 0, false, 0)
			if isBig[k] {
				// dropped: does not count
			} else if isExp[k] {
				_ = m.PropertySet(mqttp.PropertyPublicationExpiry, uint32(1))
			} else {
				want++
			}
			_ = pa.SendL(m)
		}
		// end marker on a topic of its own (never aliased: it is filtered out below)
		_ = pa.SendL(mkPublish(mqttp.ProtocolV50, "al/9999", []byte{255}, 0, false, 0))
		if !s.WaitFor(5*time.Second, func() bool {
			for _, m := range s.Pubs {
				if len(m.Payload()) == 1 && m.Payload()[0] == 255 {
					return true
				}
			}
			return false
		}) {
			obs.Err = fmt.Sprintf("end marker not received (%d of %d)", s.NPubs(), want)
		}
		s.mu.Lock()
		for i, m := range s.Pubs {
			if len(m.Payload()) == 1 && m.Payload()[0] == 255 {
				continue
			}
			var al *int
			if prop := m.PropertyGet(mqttp.PropertyTopicAlias); prop != nil {
				if v, e := prop.AsShort(); e == nil {
					al = ip(int(v))
				}
			}
			ti := topicIdx(m.Topic())
			if s.AliasOnly[i] {
				ti = nil // on the wire the packet had no topic, only the alias
			}
			obs.Out = append(obs.Out, [2]*int{ti, al})
		}
		s.mu.Unlock()
		return obs
	}
	// ---- inbound
	wc := b.Dial()
	if _, err := wc.Connect(ConnectOpts{ID: "watcher", Ver: mqttp.ProtocolV311, Clean: true}); err != nil {
		obs.Err = "watcher: " + err.Error()
		return obs
	}
	w := wc.Auto(false)
	_ = w.SendL(mkSubscribe(mqttp.ProtocolV311, 1, []string{"#"}, []byte{0}))
	if !w.WaitFor(5*time.Second, func() bool { return len(w.Others) >= 1 }) {
		obs.Err = "watcher: no suback"
		return obs
	}
	pc := b.Dial()
	if _, err := pc.Connect(ConnectOpts{ID: "pub", Ver: mqttp.ProtocolV50, Clean: true}); err != nil {
		obs.Err = "pub: " + err.Error()
		return obs
	}
	for k, pk := range c.Pkts {
		m := mqttp.NewPublish(mqttp.ProtocolV50)
		topic := ""
		if pk.Topic != nil {
			if pk.Auth {
				topic = fmt.Sprintf("al/%d", *pk.Topic)
			} else {
				topic = fmt.Sprintf("deny/%d", *pk.Topic)
			}
		}
		_ = m.Set(topic, []byte{byte(k)}, 0, false, false)
		if pk.Alias != nil {
			_ = m.PropertySet(mqttp.PropertyTopicAlias, uint16(*pk.Alias))
		}
		if err := pc.Send(m); err != nil {
			break
		}
	}
	_ = pc.Send(mqttp.NewPingReq(mqttp.ProtocolV50))
	for {
		rp, err := pc.Recv(5 * time.Second)
		if err != nil {
			if err == io.EOF {
				obs.Term = true
			} else {
				obs.Err = err.Error()
			}
			break
		}
		if rp.Type() == mqttp.PINGRESP {
			break
		}
		if d, ok := rp.(*mqttp.Disconnect); ok {
			obs.Reason = int(d.ReasonCode())
		}
	}
	// sentinel through a helper: everything routed before precedes it (single routing worker, all QoS 0)
	hc := b.Dial()
	if _, err := hc.Connect(ConnectOpts{ID: "helper", Ver: mqttp.ProtocolV311, Clean: true}); err == nil {
		_ = hc.Send(mkPublish(mqttp.ProtocolV311, "sentinel", []byte{255}, 0, false, 0))
	}
	if !w.WaitFor(5*time.Second, func() bool {
		for _, m := range w.Pubs {
			if m.Topic() == "sentinel" {
				return true
			}
		}
		return false
	}) {
		obs.Err = "sentinel did not arrive"
	}
	w.mu.Lock()
	for _, m := range w.Pubs {
		if m.Topic() == "sentinel" {
			continue
		}
		ti := topicIdx(m.Topic())
		if ti == nil {
			obs.Routed = append(obs.Routed, 0)
		} else {
			obs.Routed = append(obs.Routed, *ti)
		}
	}
	w.mu.Unlock()
	return obs
}

func (p *c14Prop) Suspect(oi interface{}) bool { return oi.(*c14Obs).Err != "" }

func cOptInt(p *int) string {
	if p == nil {
		return "None"
	}
	if *p < 0 {
		return "(Some 4294967295%N)"
	}
	return "(Some " + cN(uint64(*p)) + ")"
}

func (p *c14Prop) Coq(ci interface{}, oi interface{}) string {
	c := ci.(*c14Case)
	o := oi.(*c14Obs)
	if c.Kind == "resume" {
		return fmt.Sprintf("(CResume %s %s %s %s %s)", cN(uint64(c.Distinct+c.Repeat)), cN(uint64(o.Recv)), cN(uint64(o.Mismatch)), cN(uint64(o.Undecodable)), cBool(o.Err == ""))
	}
	if c.Kind == "bound" {
		return fmt.Sprintf("(CBound %s %s %s %s %s %s %s %s %s)", cN(uint64(c.Max)), cN(uint64(c.Distinct)), cN(uint64(c.Repeat)), cN(uint64(o.Recv)), cN(uint64(o.AliasMin)), cN(uint64(o.AliasMax)), cN(uint64(o.Mismatch)), cN(uint64(o.Undecodable)), cBool(o.Err == ""))
	}
	if c.Kind == "out" {
		isExp := map[int]bool{}
		for _, k := range c.Exp {
			isExp[k] = true
		}
		if c.MaxPkt && c.V5 {
			for _, k := range c.Big {
				isExp[k] = true // dropped before an alias is bound, as an expired message is
			}
		}
		ts := make([]string, len(c.Topics))
		for i, t := range c.Topics {
			ts[i] = fmt.Sprintf("(%s, %s)", cN(uint64(t)), cBool(isExp[i]))
		}
		if c.Pre > 0 {
			ts = append([]string{fmt.Sprintf("(%s, false)", cN(uint64(c.Pre)))}, ts...)
		}
		ob := make([]string, len(o.Out))
		for i, x := range o.Out {
			ob[i] = fmt.Sprintf("(%s, %s)", cOptInt(x[0]), cOptInt(x[1]))
		}
		return fmt.Sprintf("(COut %s %s %s %s %s)", cBool(c.V5), cN(uint64(c.Max)), cList(ts), cList(ob), cBool(o.Err == ""))
	}
	pk := make([]string, len(c.Pkts))
	for i, x := range c.Pkts {
		pk[i] = fmt.Sprintf("(%s, %s, %s)", cOptInt(x.Topic), cOptInt(x.Alias), cBool(x.Auth))
	}
	rt := make([]uint64, len(o.Routed))
	for i, t := range o.Routed {
		rt[i] = uint64(t)
	}
	return fmt.Sprintf("(CIn %s %s %s %s %s %s)", cN(uint64(c.Max)), cList(pk), cNs(rt), cBool(o.Term), cN(uint64(o.Reason)), cBool(o.Err == ""))
}

// runBound: every alias value the client allows gets bound and more topics follow; what the subscriber sees
// must resolve, under its own alias table, to the topic that was published (the payload carries its number)
// resume: Distinct topics, Repeat+Distinct QoS 1 messages round-robin over them to a durable v5 subscriber with
// Topic Alias Maximum Max that acknowledges nothing; it drops and reconnects: the retransmissions must resolve
func (p *c14Prop) runResume(c *c14Case, b *Broker) interface{} {
	obs := &c14Obs{}
	forever := uint32(0xFFFFFFFF)
	connect := func() (*Auto, error) {
		sc := b.Dial()
		if _, err := sc.Connect(ConnectOpts{ID: "sub", Ver: mqttp.ProtocolV50, Clean: false, Expiry: &forever, AliasMax: uint16(c.Max)}); err != nil {
			return nil, err
		}
		return sc.Auto(true), nil
	}
	s, err := connect()
	if err != nil {
		obs.Err = "sub: " + err.Error()
		return obs
	}
	_ = s.SendL(mkSubscribe(mqttp.ProtocolV50, 1, []string{"al/#"}, []byte{1}))
	if !s.WaitFor(5*time.Second, func() bool { return len(s.Others) >= 1 }) {
		obs.Err = "no suback"
		return obs
	}
	pc := b.Dial()
	if _, err := pc.Connect(ConnectOpts{ID: "pub", Ver: mqttp.ProtocolV311, Clean: true}); err != nil {
		obs.Err = "pub: " + err.Error()
		return obs
	}
	pa := pc.Auto(false)
	total := c.Distinct + c.Repeat
	for k := 0; k < total; k++ {
		t := k % c.Distinct
		_ = pa.SendL(mkPublish(mqttp.ProtocolV311, fmt.Sprintf("al/%d", t), []byte{byte(t >> 16), byte(t >> 8), byte(t)}, 1, false, uint16(k+1)))
	}
	if !s.WaitFor(10*time.Second, func() bool { return len(s.Pubs) >= total }) {
		obs.Err = "the first deliveries did not all arrive"
		return obs
	}
	d0 := b.Met.Disconnected()
	s.Close()
	for dl := time.Now().Add(5 * time.Second); time.Now().Before(dl) && b.Met.Disconnected() == d0; {
		time.Sleep(time.Millisecond)
	}
	time.Sleep(30 * time.Millisecond)
	var s2 *Auto
	for try := 0; try < 100; try++ {
		if s2, err = connect(); err == nil {
			break
		}
		time.Sleep(5 * time.Millisecond)
	}
	if err != nil {
		obs.Err = "reconnect: " + err.Error()
		return obs
	}
	s2.WaitFor(5*time.Second, func() bool { return len(s2.Pubs) >= total || s2.closed })
	s2.mu.Lock()
	defer s2.mu.Unlock()
	obs.Recv = len(s2.Pubs)
	if s2.closed && obs.Recv < total {
		obs.Undecodable = total - obs.Recv // the reader gave up on a packet it could not decode / the broker closed
	}
	table := map[int]string{}
	for i, m := range s2.Pubs {
		if len(m.Payload()) != 3 {
			obs.Undecodable++
			continue
		}
		truth := fmt.Sprintf("al/%d", int(m.Payload()[0])<<16|int(m.Payload()[1])<<8|int(m.Payload()[2]))
		alias := -1
		if prop := m.PropertyGet(mqttp.PropertyTopicAlias); prop != nil {
			if v, e := prop.AsShort(); e == nil {
				alias = int(v)
			}
		}
		topic := m.Topic()
		if i < len(s2.AliasOnly) && s2.AliasOnly[i] {
			topic = ""
		}
		if alias >= 0 {
			if topic != "" {
				table[alias] = topic
			} else {
				topic = table[alias]
			}
		}
		if topic != truth || !m.Dup() {
			obs.Mismatch++
		}
	}
	return obs
}

func (p *c14Prop) runBound(c *c14Case, b *Broker) interface{} {
	obs := &c14Obs{}
	sc := b.Dial()
	if _, err := sc.Connect(ConnectOpts{ID: "sub", Ver: mqttp.ProtocolV50, Clean: true, AliasMax: uint16(c.Max)}); err != nil {
		obs.Err = "sub: " + err.Error()
		return obs
	}
	s := sc.Auto(false)
	_ = s.SendL(mkSubscribe(mqttp.ProtocolV50, 1, []string{"al/#"}, []byte{0}))
	if !s.WaitFor(5*time.Second, func() bool { return len(s.Others) >= 1 }) {
		obs.Err = "no suback"
		return obs
	}
	pc := b.Dial()
	if _, err := pc.Connect(ConnectOpts{ID: "pub", Ver: mqttp.ProtocolV311, Clean: true}); err != nil {
		obs.Err = "pub: " + err.Error()
		return obs
	}
	total := c.Distinct + c.Repeat
	for k := 0; k < total; k++ {
		t := k
		if k >= c.Distinct {
			t = k - c.Distinct
		}
		pl := []byte{byte(t >> 16), byte(t >> 8), byte(t)}
		if err := pc.Send(mkPublish(mqttp.ProtocolV311, fmt.Sprintf("al/%d", t), pl, 0, false, 0)); err != nil {
			obs.Err = "publish: " + err.Error()
			return obs
		}
	}
	s.WaitFor(30*time.Second, func() bool { return len(s.Pubs) >= total })
	s.mu.Lock()
	defer s.mu.Unlock()
	obs.Recv = len(s.Pubs)
	obs.AliasMin, obs.AliasMax = 1<<30, 0
	table := map[int]string{}
	for i, m := range s.Pubs {
		if len(m.Payload()) != 3 {
			obs.Undecodable++
			continue
		}
		truth := fmt.Sprintf("al/%d", int(m.Payload()[0])<<16|int(m.Payload()[1])<<8|int(m.Payload()[2]))
		alias := -1
		if prop := m.PropertyGet(mqttp.PropertyTopicAlias); prop != nil {
			if v, e := prop.AsShort(); e == nil {
				alias = int(v)
			}
		}
		topic := m.Topic()
		if i < len(s.AliasOnly) && s.AliasOnly[i] {
			topic = "" // the wire view: the client's reader has already resolved it
		}
		if alias >= 0 {
			if alias < obs.AliasMin {
				obs.AliasMin = alias
			}
			if alias > obs.AliasMax {
				obs.AliasMax = alias
			}
			if topic != "" {
				table[alias] = topic
			} else {
				topic = table[alias]
			}
		}
		if topic != truth {
			obs.Mismatch++
		}
	}
	if obs.AliasMax == 0 && obs.AliasMin == 1<<30 {
		obs.AliasMin = 0
	}
	return obs
}

func (p *c14Prop) Class(ci interface{}, oi interface{}) (string, bool) {
	c := ci.(*c14Case)
	if c.Kind == "resume" {
		return "resume-unacknowledged-with-aliases", true
	}
	if c.Kind == "bound" {
		return "bound", true
	}
	if c.Kind == "out" {
		d := map[int]bool{}
		for _, t := range c.Topics {
			d[t] = true
		}
		if len(d) > c.Max && c.Max > 0 {
			return "out+exhausted", true
		}
		return "out", c.Max > 0
	}
	if oi.(*c14Obs).Term {
		return "in+terminated", true
	}
	return "in", true
}
