package main

import (
	"encoding/binary"
	"errors"
	"fmt"
	"io"
	"net"
	"sync"
	"sync/atomic"
	"time"

	"github.com/VolantMQ/vlapi/mqttp"
	"github.com/VolantMQ/vlapi/vlauth"
	"github.com/VolantMQ/vlapi/vlpersistence"
	persistenceMem "gitlab.com/VolantMQ/vlplugin/persistence/mem"

	"github.com/VolantMQ/volantmq/auth"
	"github.com/VolantMQ/volantmq/clients"
	"github.com/VolantMQ/volantmq/configuration"
	"github.com/VolantMQ/volantmq/metrics"
	"github.com/VolantMQ/volantmq/topics"
	topicsTypes "github.com/VolantMQ/volantmq/topics/types"
)

// ---- programmable authenticator -------------------------------------------------

type progAuth struct {
	mu       sync.Mutex
	password func(clientID, user, pass string) bool
	acl      func(clientID, user, topic string, write bool) bool
	// how a refusal of the ACL is worded: 0 vlauth.StatusDeny, 1 an error that is neither verdict (a backend that
	// cannot answer), 2 no error value at all - only vlauth.StatusAllow is a permission
	refusal int
}

var errAuthBackend = errors.New("auth backend cannot answer")

func (a *progAuth) Password(clientID, user, password string) error {
	a.mu.Lock()
	f := a.password
	a.mu.Unlock()
	if f == nil || f(clientID, user, password) {
		return vlauth.StatusAllow
	}
	return vlauth.StatusDeny
}
func (a *progAuth) ACL(clientID, user, topic string, access vlauth.AccessType) error {
	a.mu.Lock()
	f := a.acl
	a.mu.Unlock()
	if f == nil || f(clientID, user, topic, access == vlauth.AccessWrite) {
		return vlauth.StatusAllow
	}
	switch a.refusal {
	case 1:
		return errAuthBackend
	case 2:
		return nil
	}
	return vlauth.StatusDeny
}
func (a *progAuth) Shutdown() error { return nil }

var authSeq uint64

func nextAuthSeq() uint64 { return atomic.AddUint64(&authSeq, 1) }

// ---- metrics wrapper: lets the harness wait for "connection close fully processed" ----
// (clients.Manager calls Clients().OnDisconnected in connectionClosed and, for a durable session,
// Packets().OnAddStore in sessionOffline after the queued packets were handed to persistence)

type recClients struct {
	metrics.Clients
	disconnected int64
	connected    int64
}

func (r *recClients) OnConnected() {
	r.Clients.OnConnected()
	atomic.AddInt64(&r.connected, 1)
}

func (r *recClients) OnDisconnected(p bool) {
	r.Clients.OnDisconnected(p)
	atomic.AddInt64(&r.disconnected, 1)
}

type recPackets struct {
	metrics.Packets
	addStore int64
}

func (r *recPackets) OnAddStore(n int) {
	r.Packets.OnAddStore(n)
	atomic.AddInt64(&r.addStore, 1)
}

type recMetrics struct {
	metrics.Informer
	c *recClients
	p *recPackets
}

func (r *recMetrics) Clients() metrics.Clients { return r.c }
func (r *recMetrics) Packets() metrics.Packets { return r.p }

func newRecMetrics() *recMetrics {
	m := metrics.New()
	return &recMetrics{Informer: m, c: &recClients{Clients: m.Clients()}, p: &recPackets{Packets: m.Packets()}}
}

func (r *recMetrics) Disconnected() int64 { return atomic.LoadInt64(&r.c.disconnected) }
func (r *recMetrics) Connected() int64    { return atomic.LoadInt64(&r.c.connected) }
func (r *recMetrics) AddStore() int64     { return atomic.LoadInt64(&r.p.addStore) }

// ---- broker ---------------------------------------------------------------------

type BrokerOpts struct {
	Versions        []string
	ReceiveMax      uint16
	MaxPacketSize   uint32
	MaxTopicAlias   uint16
	ConnectTimeout  int
	Preempt         bool
	NoRetain        bool
	SubsID          bool
	SubsShared      bool
	Overlap         bool
	OfflineQoS0     bool
	KeepAliveForce  bool
	KeepAlivePeriod int
	Provider        string // "mem" (the shipped default, lock-free trie) — kept for clarity
	Persist         vlpersistence.IFace
	Auth            []*progAuth
	// OnTopics runs after the topics provider exists and BEFORE the session manager is created: a watcher
	// subscribed here also sees what the manager publishes while it starts (wills that became due during downtime)
	OnTopics func(topicsTypes.Provider) error
}

type Broker struct {
	Mgr        *clients.Manager
	Topics     topicsTypes.Provider
	Persist    vlpersistence.IFace
	Auth       *auth.Manager
	Opts       BrokerOpts
	Met        *recMetrics
	topicsDown int32
	mgrDown    int32
	authNames  []string
}

func NewBroker(o BrokerOpts) (*Broker, error) {
	if len(o.Versions) == 0 {
		o.Versions = []string{"v3.1", "v3.1.1", "v5.0"}
	}
	if o.ReceiveMax == 0 {
		o.ReceiveMax = 65535
	}
	if o.MaxPacketSize == 0 {
		o.MaxPacketSize = 268435455
	}
	if o.ConnectTimeout == 0 {
		o.ConnectTimeout = 5
	}
	b := &Broker{Opts: o}
	var err error
	b.Persist = o.Persist
	if b.Persist == nil {
		if b.Persist, err = persistenceMem.Load(nil, nil); err != nil {
			return nil, err
		}
	}
	m := newRecMetrics()
	b.Met = m
	tc := topicsTypes.NewMemConfig()
	tc.MetricsPackets = m.Packets()
	tc.MetricsSubs = m.Subs()
	tc.Persist, _ = b.Persist.Retained()
	tc.OverlappingSubscriptions = o.Overlap
	if b.Topics, err = topics.New(tc); err != nil {
		return nil, err
	}
	if o.OnTopics != nil {
		if err = o.OnTopics(b.Topics); err != nil {
			return nil, err
		}
	}
	var mc configuration.MqttConfig
	mc.Version = o.Versions
	mc.KeepAlive.Force = o.KeepAliveForce
	mc.KeepAlive.Period = o.KeepAlivePeriod
	mc.Options.ConnectTimeout = o.ConnectTimeout
	mc.Options.SessionPreempt = o.Preempt
	mc.Options.RetainAvailable = !o.NoRetain
	mc.Options.SubsOverlap = o.Overlap
	mc.Options.SubsID = o.SubsID
	mc.Options.SubsShared = o.SubsShared
	mc.Options.SubsWildcard = true
	mc.Options.ReceiveMax = o.ReceiveMax
	mc.Options.MaxPacketSize = o.MaxPacketSize
	mc.Options.MaxTopicAlias = o.MaxTopicAlias
	mc.Options.MaxQoS = mqttp.QoS2
	mc.Options.OfflineQoS0 = o.OfflineQoS0
	b.Mgr, err = clients.NewManager(&clients.Config{
		MqttConfig:       mc,
		TopicsMgr:        b.Topics,
		Persist:          b.Persist,
		Metrics:          m,
		OnReplaceAttempt: func(string, bool) {},
		NodeName:         "verif",
	})
	if err != nil {
		return nil, err
	}
	auths := o.Auth
	if len(auths) == 0 {
		auths = []*progAuth{{}}
	}
	// the auth package's provider registry is a plain map: serialise the harness's own access to it
	authRegMu.Lock()
	defer authRegMu.Unlock()
	for _, a := range auths {
		name := fmt.Sprintf("verif-auth-%d", atomic.AddUint64(&authSeq, 1))
		if err = auth.Register(name, a); err != nil {
			return nil, err
		}
		b.authNames = append(b.authNames, name)
	}
	if b.Auth, err = auth.NewManager(b.authNames); err != nil {
		return nil, err
	}
	return b, nil
}

var authRegMu sync.Mutex

// Close stops the broker; returns false when Stop/Shutdown did not return within the timeout.
func (b *Broker) Close(timeout time.Duration) bool {
	done := make(chan struct{})
	go func() {
		_ = b.Mgr.Stop()
		_ = b.Mgr.Shutdown()
		_ = b.Topics.Shutdown()
		close(done)
	}()
	ok := true
	select {
	case <-done:
	case <-time.After(timeout):
		ok = false
	}
	authRegMu.Lock()
	for _, n := range b.authNames {
		auth.UnRegister(n)
	}
	authRegMu.Unlock()
	return ok
}

// Drop abandons the broker without waiting for Stop (used by harnesses whose property is not about
// shutdown: Manager.Stop is exercised by C20 only).
// ShutdownTopics shuts the topics provider down once.
func (b *Broker) ShutdownTopics() {
	if atomic.CompareAndSwapInt32(&b.topicsDown, 0, 1) {
		_ = b.Topics.Shutdown()
	}
}

func (b *Broker) Drop() {
	go func() {
		if atomic.CompareAndSwapInt32(&b.mgrDown, 0, 1) {
			_ = b.Mgr.Stop()
			_ = b.Mgr.Shutdown()
		}
		b.ShutdownTopics()
	}()
	authRegMu.Lock()
	for _, n := range b.authNames {
		auth.UnRegister(n)
	}
	authRegMu.Unlock()
}

// ---- client ---------------------------------------------------------------------

type Client struct {
	conn net.Conn
	Ver  mqttp.ProtocolVersion
	buf  []byte
	done chan struct{}
	// LastRaw holds the bytes of the most recent packet taken off the stream (also when decoding failed)
	LastRaw []byte
	// LenientUnsuback: a v5 UNSUBACK the packet library cannot decode is handed on as an UNSUBACK that carries only
	// its identifier (for callers that wait for the acknowledgement and do not look at the codes)
	LenientUnsuback bool
}

func (b *Broker) Dial() *Client {
	cl, srv := bufPipe()
	c := &Client{conn: cl, Ver: mqttp.ProtocolV311, done: make(chan struct{})}
	go func() {
		_ = b.Mgr.OnConnection(srv, b.Auth)
		close(c.done)
	}()
	return c
}

// DialCap: like Dial, but the broker's writes block once capBytes are waiting unread at the client
func (b *Broker) DialCap(capBytes int) *Client {
	cl, srv := bufPipeCap(capBytes)
	c := &Client{conn: cl, Ver: mqttp.ProtocolV311, done: make(chan struct{})}
	go func() {
		_ = b.Mgr.OnConnection(srv, b.Auth)
		close(c.done)
	}()
	return c
}

func (c *Client) Close() { _ = c.conn.Close() }

func (c *Client) SendRaw(b []byte) error {
	_ = c.conn.SetWriteDeadline(time.Now().Add(5 * time.Second))
	_, err := c.conn.Write(b)
	return err
}

func (c *Client) Send(p mqttp.IFace) error {
	b, err := mqttp.Encode(p)
	if err != nil {
		return err
	}
	return c.SendRaw(b)
}

var errTimeout = errors.New("timeout")

// Recv reads one packet; io.EOF when the broker closed the connection, errTimeout on timeout.
func (c *Client) Recv(timeout time.Duration) (mqttp.IFace, error) {
	deadline := time.Now().Add(timeout)
	for {
		if n := framedLen(c.buf); n > 0 && len(c.buf) >= n {
			c.LastRaw = append([]byte{}, c.buf[:n]...)
			pkt, _, err := mqttp.Decode(c.Ver, c.buf[:n])
			c.buf = append([]byte{}, c.buf[n:]...)
			if err != nil && c.Ver == mqttp.ProtocolV50 && len(c.LastRaw) >= 5 && c.LastRaw[0]>>4 == 9 {
				// the vlapi decoder rejects a v5 SUBACK carrying failure codes: rebuild it by hand
				// (fixed header 2 bytes for these short packets, packet id, property length 0, codes)
				raw := c.LastRaw
				sa := mqttp.NewSubAck(mqttp.ProtocolV50)
				sa.SetPacketID(mqttp.IDType(uint16(raw[2])<<8 | uint16(raw[3])))
				ok := raw[4] == 0
				for _, b := range raw[5:] {
					if sa.AddReturnCode(mqttp.ReasonCode(b)) != nil {
						ok = false
					}
				}
				if ok {
					return sa, nil
				}
			}
			if err != nil && c.LenientUnsuback && c.Ver == mqttp.ProtocolV50 && len(c.LastRaw) >= 4 && c.LastRaw[0]>>4 == 11 {
				// ... and a v5 UNSUBACK (whatever it carries): keep the identifier, that is all the callers look at
				if x, e := mqttp.New(mqttp.ProtocolV50, mqttp.UNSUBACK); e == nil {
					if ua, ok := x.(*mqttp.UnSubAck); ok {
						ua.SetPacketID(mqttp.IDType(uint16(c.LastRaw[2])<<8 | uint16(c.LastRaw[3])))
						return ua, nil
					}
				}
			}
			if err != nil {
				return nil, fmt.Errorf("decode: %v", err)
			}
			return pkt, nil
		}
		_ = c.conn.SetReadDeadline(deadline)
		tmp := make([]byte, 65536)
		n, err := c.conn.Read(tmp)
		c.buf = append(c.buf, tmp[:n]...)
		if err != nil && n == 0 {
			if ne, ok := err.(net.Error); ok && ne.Timeout() {
				return nil, errTimeout
			}
			return nil, io.EOF
		}
	}
}

// framedLen returns the total length of the first packet in b if its fixed header is complete, else 0.
func framedLen(b []byte) int {
	if len(b) < 2 {
		return 0
	}
	for i := 1; i < len(b) && i <= 4; i++ {
		if b[i] < 0x80 {
			rl, m := binary.Uvarint(b[1 : i+1])
			return 1 + m + int(rl)
		}
	}
	return 0
}

// ConnectOpts describes a CONNECT.
type ConnectOpts struct {
	NoRead     bool // send CONNECT and do not read the answer
	ID         string
	Ver        mqttp.ProtocolVersion
	Clean      bool
	KeepAlive  uint16
	Expiry     *uint32
	RecvMax    uint16
	MaxPacket  uint32
	AliasMax   uint16
	User, Pass string
	Will       *mqttp.Publish
}

func (c *Client) Connect(o ConnectOpts) (*mqttp.ConnAck, error) {
	if o.Ver == 0 {
		o.Ver = mqttp.ProtocolV311
	}
	c.Ver = o.Ver
	p := mqttp.NewConnect(o.Ver)
	p.SetClean(o.Clean)
	p.SetKeepAlive(o.KeepAlive)
	_ = p.SetClientID([]byte(o.ID))
	if o.User != "" {
		_ = p.SetCredentials([]byte(o.User), []byte(o.Pass))
	}
	if o.Will != nil {
		_ = p.SetWill(o.Will)
	}
	if o.Ver == mqttp.ProtocolV50 {
		if o.Expiry != nil {
			_ = p.PropertySet(mqttp.PropertySessionExpiryInterval, *o.Expiry)
		}
		if o.RecvMax != 0 {
			_ = p.PropertySet(mqttp.PropertyReceiveMaximum, o.RecvMax)
		}
		if o.MaxPacket != 0 {
			_ = p.PropertySet(mqttp.PropertyMaximumPacketSize, o.MaxPacket)
		}
		if o.AliasMax != 0 {
			_ = p.PropertySet(mqttp.PropertyTopicAliasMaximum, o.AliasMax)
		}
	}
	if err := c.Send(p); err != nil {
		return nil, err
	}
	if o.NoRead {
		return nil, nil
	}
	pkt, err := c.Recv(5 * time.Second)
	if err != nil {
		return nil, err
	}
	ack, ok := pkt.(*mqttp.ConnAck)
	if !ok {
		return nil, fmt.Errorf("expected CONNACK, got %s", pkt.Type().Name())
	}
	return ack, nil
}

func mkPublish(ver mqttp.ProtocolVersion, topic string, payload []byte, qos byte, retain bool, id uint16) *mqttp.Publish {
	p := mqttp.NewPublish(ver)
	_ = p.Set(topic, payload, mqttp.QosType(qos), retain, false)
	if qos > 0 {
		p.SetPacketID(mqttp.IDType(id))
	}
	return p
}

func mkSubscribe(ver mqttp.ProtocolVersion, id uint16, filters []string, ops []byte) *mqttp.Subscribe {
	s := mqttp.NewSubscribe(ver)
	s.SetPacketID(mqttp.IDType(id))
	for i, f := range filters {
		t, err := mqttp.NewSubscribeTopic([]byte(f), mqttp.SubscriptionOptions(ops[i]))
		if err == nil {
			_ = s.AddTopic(t)
		}
	}
	return s
}

func mkAck(ver mqttp.ProtocolVersion, t mqttp.Type, id uint16) *mqttp.Ack {
	m, _ := mqttp.New(ver, t)
	a := m.(*mqttp.Ack)
	a.SetPacketID(mqttp.IDType(id))
	return a
}

// ---- auto-acknowledging client ---------------------------------------------------

// Auto reads everything the broker sends, completes QoS handshakes for received PUBLISH
// packets (unless NoAck) and for its own publishes (PUBREC -> PUBREL), and records packets.
type Auto struct {
	*Client
	mu        sync.Mutex
	Pubs      []*mqttp.Publish
	Others    []mqttp.IFace
	Seq       []mqttp.IFace     // everything, in arrival order
	PubRaw    [][]byte          // raw bytes of the packets in Pubs
	aliases   map[uint16]string // receiver-side topic alias table (MQTT 5)
	AliasOnly []bool            // per entry of Pubs: the packet carried no topic (resolved through the table)
	closed    bool
	notify    chan struct{}
	NoAck     bool
	out       chan mqttp.IFace
	gone      chan struct{} // closed when the reader has seen the end of the connection: the sender goroutine ends too
	EndErr    string        // how the reading ended when it was not the end of the stream (a decode error)
}

func (c *Client) Auto(noAck bool) *Auto {
	a := &Auto{Client: c, notify: make(chan struct{}, 1), NoAck: noAck, out: make(chan mqttp.IFace, 1<<12), gone: make(chan struct{})}
	go func() {
		a.loop()
		close(a.gone)
	}()
	go func() {
		for {
			select {
			case p := <-a.out:
				if a.Send(p) != nil {
					return
				}
			case <-a.gone:
				return
			}
		}
	}()
	return a
}

// SendL queues a packet; one writer goroutine sends queued packets in order, so the
// acknowledgements the client produces keep the order of what they acknowledge.
func (a *Auto) SendL(p mqttp.IFace) error {
	select {
	case a.out <- p:
	default:
		return errors.New("client output queue full")
	}
	return nil
}

func (a *Auto) loop() {
	for {
		pkt, err := a.Recv(24 * time.Hour)
		a.mu.Lock()
		if err != nil {
			a.closed = true
			if err != io.EOF && err != errTimeout {
				a.EndErr = err.Error()
			}
			a.mu.Unlock()
			a.wake()
			return
		}
		a.Seq = append(a.Seq, pkt)
		switch p := pkt.(type) {
		case *mqttp.Publish:
			if prop := p.PropertyGet(mqttp.PropertyTopicAlias); prop != nil {
				if al, e := prop.AsShort(); e == nil {
					if a.aliases == nil {
						a.aliases = map[uint16]string{}
					}
					if p.Topic() != "" {
						a.aliases[al] = p.Topic()
					} else if t, ok := a.aliases[al]; ok {
						_ = p.SetTopic(t)
					}
				}
			}
			a.AliasOnly = append(a.AliasOnly, len(a.LastRaw) > 4 && p.Topic() != "" && topicLenRaw(a.LastRaw) == 0)
			a.Pubs = append(a.Pubs, p)
			a.PubRaw = append(a.PubRaw, a.LastRaw)
		default:
			a.Others = append(a.Others, pkt)
		}
		a.mu.Unlock()
		a.wake()
		switch p := pkt.(type) {
		case *mqttp.Publish:
			if !a.NoAck {
				id, _ := p.ID()
				if p.QoS() == mqttp.QoS1 {
					_ = a.SendL(mkAck(a.Ver, mqttp.PUBACK, uint16(id)))
				} else if p.QoS() == mqttp.QoS2 {
					_ = a.SendL(mkAck(a.Ver, mqttp.PUBREC, uint16(id)))
				}
			}
		case *mqttp.Ack:
			id, _ := p.ID()
			switch p.Type() {
			case mqttp.PUBREC:
				_ = a.SendL(mkAck(a.Ver, mqttp.PUBREL, uint16(id)))
			case mqttp.PUBREL:
				if !a.NoAck {
					_ = a.SendL(mkAck(a.Ver, mqttp.PUBCOMP, uint16(id)))
				}
			}
		}
	}
}

func (a *Auto) wake() {
	select {
	case a.notify <- struct{}{}:
	default:
	}
}

// WaitFor blocks until cond (evaluated under the lock) holds, the connection closed, or timeout.
func (a *Auto) WaitFor(timeout time.Duration, cond func() bool) bool {
	deadline := time.After(timeout)
	for {
		a.mu.Lock()
		ok := cond()
		cl := a.closed
		a.mu.Unlock()
		if ok {
			return true
		}
		if cl {
			return false
		}
		select {
		case <-a.notify:
		case <-deadline:
			return false
		case <-time.After(50 * time.Millisecond):
		}
	}
}

func (a *Auto) NPubs() int {
	a.mu.Lock()
	defer a.mu.Unlock()
	return len(a.Pubs)
}

func (a *Auto) Closed() bool {
	a.mu.Lock()
	defer a.mu.Unlock()
	return a.closed
}

func (a *Auto) CountOthers(t mqttp.Type) int {
	a.mu.Lock()
	defer a.mu.Unlock()
	n := 0
	for _, o := range a.Others {
		if o.Type() == t {
			n++
		}
	}
	return n
}

// topicLenRaw returns the length of the topic field of a raw PUBLISH packet.
func topicLenRaw(raw []byte) int {
	i := 1
	for i < len(raw) && i <= 4 && raw[i] >= 0x80 {
		i++
	}
	i++
	if i+2 > len(raw) {
		return -1
	}
	return int(raw[i])<<8 | int(raw[i+1])
}

// Drop2 releases the auth registrations of a broker that has already been stopped.
func (b *Broker) Drop2() {
	authRegMu.Lock()
	for _, n := range b.authNames {
		auth.UnRegister(n)
	}
	authRegMu.Unlock()
}
