package main

import (
	"encoding/json"
	"fmt"
	"sort"
	"strings"
	"sync"
	"sync/atomic"
	"time"

	"github.com/VolantMQ/vlapi/mqttp"
	"github.com/VolantMQ/vlapi/vlsubscriber"
	"github.com/VolantMQ/volantmq/metrics"
	"github.com/VolantMQ/volantmq/topics/memlockfree"

	topicsTypes "github.com/VolantMQ/volantmq/topics/types"
)

// C09: concurrency of the lock-free topic index.
//   kind "rounds": rounds of operations issued at the same moment from several goroutines (Subscribe /
//     UnSubscribe / Retain, every key touched at most once per round, so every linearization ends in the same
//     state) plus publishes issued during the round; probes at quiescence after every round.
//   kind "gated":  a schedule of the protocol model (coq/model/LFProto.v, refute/C09.v) forced on the real
//     provider: the stub's Hash() - called by subscriptionInsert between finding the leaf and storing the
//     subscription, and by subscriptionRemove between the counter decrement and the map delete - and the
//     OnCleanUnsubscribe callback - called by nodesCleanup between marking a node and unlinking it - are the
//     places where a goroutine can be held.

type c09Round struct {
	Ops    []c01Op  `json:"ops"`
	Pubs   []string `json:"pubs,omitempty"`
	Probes []string `json:"probes,omitempty"`
	RetQ   []string `json:"retq,omitempty"`
}

type c09Case struct {
	Kind   string     `json:"kind"`
	Rounds []c09Round `json:"rounds,omitempty"`
	Gated  string     `json:"gated,omitempty"` // detached-leaf | double-cleanup | cleanup-vs-insert | cleanup-vs-retain | resub-vs-publish | dup-unsub-behind-writer
	// kind "replace": K retained publishes (QoS RQoS, tags 1..K, never empty) on one topic by one goroutine while another
	// reads Retained(topic) all the time: the topic has a retained message at every moment of every linearization
	// kind "params": K publishes routed while the session re-subscribes with alternating parameters
	// kind "sweep": K iterations of "an expired retained message is swept by readers while a fresh one is stored"
	K    int `json:"k,omitempty"`
	RQoS int `json:"rqos,omitempty"`
}

type c09Replace struct {
	Reads    int   `json:"reads"`
	Empty    int   `json:"empty"`
	Monotone bool  `json:"monotone"`
	Final    []int `json:"final"`
}

type c09RoundObs struct {
	Pubs   [][]int `json:"pubs"`
	Probes [][]int `json:"probes"`
	RetQ   [][]int `json:"retq"`
}

type c09Obs struct {
	Rounds []c09RoundObs `json:"rounds"`
	Rep    *c09Replace   `json:"rep,omitempty"`
	Lost   *int          `json:"lost,omitempty"`
	Mix    *[2]int       `json:"mix,omitempty"` // deliveries, of which with parameters that do not belong together
	Err    string        `json:"err,omitempty"`
}

type c09Prop struct{}

func init() { props["C09"] = &c09Prop{} }

func (p *c09Prop) ID() string { return "C09" }
func (p *c09Prop) Header() string {
	return "From Coq Require Import List NArith.\nImport ListNotations.\nFrom VMQ Require Import model.Trie chk.C01chk chk.C09chk.\nOpen Scope N_scope.\n"
}
func (p *c09Prop) Parallel() int { return 4 }

func (p *c09Prop) Decode(raw json.RawMessage) (interface{}, error) {
	c := &c09Case{}
	return c, json.Unmarshal(raw, c)
}

var c09Names = []string{"p", "q", "r", "x"}

// a round of operations on pairwise distinct keys
func c09Batch(r *Rng, filters []string, nsubs int, tag *int) c09Round {
	rd := c09Round{}
	used := map[string]bool{}
	n := 2 + r.Intn(5)
	for k := 0; k < n; k++ {
		f := filters[r.Intn(len(filters))]
		switch x := r.Intn(100); {
		case x < 45:
			s := 1 + r.Intn(nsubs)
			key := fmt.Sprintf("s%d|%s", s, f)
			if used[key] {
				continue
			}
			used[key] = true
			rd.Ops = append(rd.Ops, c01Op{Op: "sub", F: f, S: s, QoS: r.Intn(3), RH: 2})
		case x < 85:
			s := 1 + r.Intn(nsubs)
			key := fmt.Sprintf("s%d|%s", s, f)
			if used[key] {
				continue
			}
			used[key] = true
			rd.Ops = append(rd.Ops, c01Op{Op: "unsub", F: f, S: s})
		default:
			if strings.ContainsAny(f, "+#") || used["r|"+f] {
				continue
			}
			used["r|"+f] = true
			*tag++
			rd.Ops = append(rd.Ops, c01Op{Op: "ret", F: f, Tag: *tag, QoS: 1, Empty: r.Chance(50)})
		}
	}
	return rd
}

func (p *c09Prop) Gen(r *Rng, i int, tier string) interface{} {
	switch i % 8 {
	case 5:
		return &c09Case{Kind: "gated", Gated: "detached-leaf"}
	case 6:
		return &c09Case{Kind: "gated", Gated: "double-cleanup"}
	case 7:
		if i%16 == 15 {
			return &c09Case{Kind: "gated", Gated: "cleanup-vs-retain"}
		}
		if i%32 == 7 {
			return &c09Case{Kind: "gated", Gated: "resub-vs-publish"}
		}
		if i%32 == 23 {
			return &c09Case{Kind: "gated", Gated: "dup-unsub-behind-writer"}
		}
		return &c09Case{Kind: "gated", Gated: "cleanup-vs-insert"}
	}
	if i%8 == 3 {
		if i%16 == 11 {
			return &c09Case{Kind: "sweep", K: 2500 + r.Intn(1000)}
		}
		if i%32 == 3 {
			return &c09Case{Kind: "params", K: 20000 + r.Intn(20000)}
		}
		return &c09Case{Kind: "replace", K: 200 + r.Intn(400), RQoS: r.Intn(2)}
	}
	c := &c09Case{Kind: "rounds"}
	// a small pool of shared and nested filters: create / prune of the same branches all the time
	a, b := c09Names[r.Intn(4)], c09Names[r.Intn(4)]
	filters := []string{a, a + "/" + b, a + "/" + b + "/z", a + "/r", a + "/+", a + "/#", b + "/" + a}
	topics := []string{a, a + "/" + b, a + "/" + b + "/z", a + "/r", b + "/" + a}
	nsubs := 2 + r.Intn(4)
	tag := 0
	rounds := 30 + r.Intn(40)
	if tier == "thorough" {
		rounds = 100 + r.Intn(200)
	}
	for k := 0; k < rounds; k++ {
		var rd c09Round
		switch r.Intn(6) {
		case 0: // everybody leaves one filter at once (several cleanups of one node), a sibling stays
			f := filters[1+r.Intn(3)]
			for s := 1; s <= nsubs; s++ {
				rd.Ops = append(rd.Ops, c01Op{Op: "unsub", F: f, S: s})
			}
		case 1: // everybody (re)joins, in two nested filters
			f, g := filters[1], filters[2]
			for s := 1; s <= nsubs; s++ {
				if s%2 == 0 {
					rd.Ops = append(rd.Ops, c01Op{Op: "sub", F: f, S: s, QoS: 1, RH: 2})
				} else {
					rd.Ops = append(rd.Ops, c01Op{Op: "sub", F: g, S: s, QoS: 1, RH: 2})
				}
			}
		case 2: // the last subscriber leaves while another one arrives at the same / a nested filter
			f := filters[1+r.Intn(2)]
			rd.Ops = append(rd.Ops, c01Op{Op: "unsub", F: f, S: 1}, c01Op{Op: "sub", F: f, S: 2, QoS: 0, RH: 2}, c01Op{Op: "sub", F: f + "/z", S: 1, QoS: 0, RH: 2})
		default:
			rd = c09Batch(r, filters, nsubs, &tag)
		}
		for j := 0; j < r.Intn(3); j++ {
			rd.Pubs = append(rd.Pubs, topics[r.Intn(len(topics))])
		}
		for j := 0; j < 1+r.Intn(3); j++ {
			rd.Probes = append(rd.Probes, topics[r.Intn(len(topics))])
		}
		if r.Chance(30) {
			rd.RetQ = append(rd.RetQ, []string{"#", a + "/#", a + "/" + b}[r.Intn(3)])
		}
		c.Rounds = append(c.Rounds, rd)
	}
	return c
}

// hashGate is a subscriber whose n-th Hash() call waits for the test
type hashGate struct {
	id      int
	calls   int32
	gateAt  int32
	reached chan struct{}
	release chan struct{}
	mu      *sync.Mutex
	recv    *[][2]int
}

func (s *hashGate) Hash() uintptr {
	n := atomic.AddInt32(&s.calls, 1)
	if g := atomic.LoadInt32(&s.gateAt); g != 0 && n == g {
		close(s.reached)
		<-s.release
	}
	return uintptr(1000 + s.id)
}

func (s *hashGate) Publish(m *mqttp.Publish, _ mqttp.QosType, _ mqttp.SubscriptionOptions, _ []uint32) error {
	tag := 0
	if len(m.Payload()) >= 2 {
		tag = int(m.Payload()[0])<<8 | int(m.Payload()[1])
	}
	s.mu.Lock()
	*s.recv = append(*s.recv, [2]int{s.id, tag})
	s.mu.Unlock()
	return nil
}

type c09Env struct {
	prov  topicsTypes.Provider
	mu    sync.Mutex
	recv  [][2]int
	nsent int
	tag   int
}

func (e *c09Env) waitFor(cond func() bool) bool {
	deadline := time.Now().Add(5 * time.Second)
	for time.Now().Before(deadline) {
		if cond() {
			return true
		}
		time.Sleep(50 * time.Microsecond)
	}
	return false
}

func (e *c09Env) pubBarrier() bool {
	e.nsent++
	m := mqttp.NewPublish(mqttp.ProtocolV311)
	_ = m.Set("zz/sentinel", []byte{0xff, 0xff}, 0, false, false)
	_ = e.prov.Publish(m)
	want := e.nsent
	return e.waitFor(func() bool {
		e.mu.Lock()
		defer e.mu.Unlock()
		n := 0
		for _, x := range e.recv {
			if x[0] == 99 {
				n++
			}
		}
		return n >= want
	})
}

func (e *c09Env) retBarrier() bool {
	m := mqttp.NewPublish(mqttp.ProtocolV311)
	_ = m.Set("zz/rsentinel", []byte{1}, 1, true, false)
	_ = e.prov.Retain(m)
	if !e.waitFor(func() bool { r, _ := e.prov.Retained("zz/rsentinel"); return len(r) == 1 }) {
		return false
	}
	m2 := mqttp.NewPublish(mqttp.ProtocolV311)
	_ = m2.Set("zz/rsentinel", []byte{}, 1, true, false)
	_ = e.prov.Retain(m2)
	return e.waitFor(func() bool { r, _ := e.prov.Retained("zz/rsentinel"); return len(r) == 0 })
}

func (e *c09Env) publish(topic string) int {
	e.tag++
	m := mqttp.NewPublish(mqttp.ProtocolV311)
	_ = m.Set(topic, []byte{byte(e.tag >> 8), byte(e.tag)}, 0, false, false)
	_ = e.prov.Publish(m)
	return e.tag
}

func (e *c09Env) receivers(tag int) []int {
	e.mu.Lock()
	defer e.mu.Unlock()
	out := []int{}
	for _, x := range e.recv {
		if x[0] != 99 && x[1] == tag {
			out = append(out, x[0])
		}
	}
	sort.Ints(out)
	return out
}

func newC09Env(onClean func([]string)) (*c09Env, error) {
	m := metrics.New()
	cfg := topicsTypes.NewMemConfig()
	cfg.MetricsPackets = m.Packets()
	cfg.MetricsSubs = m.Subs()
	if onClean != nil {
		cfg.OnCleanUnsubscribe = onClean
	}
	prov, err := memlockfree.NewMemProvider(cfg)
	if err != nil {
		return nil, err
	}
	e := &c09Env{prov: prov}
	sent := &hashGate{id: 99, mu: &e.mu, recv: &e.recv}
	if r := prov.Subscribe(topicsTypes.SubscribeReq{Filter: "zz/sentinel", S: sent, Params: vlsubscriber.SubscriptionParams{Ops: mqttp.SubscriptionOptions(0 | 0x20)}}); r.Err != nil {
		return nil, r.Err
	}
	return e, nil
}

func subReq(f string, s topicsTypes.Subscriber, qos int) topicsTypes.SubscribeReq {
	return topicsTypes.SubscribeReq{Filter: f, S: s, Params: vlsubscriber.SubscriptionParams{Ops: mqttp.SubscriptionOptions(byte(qos) | 0x20)}}
}

func (p *c09Prop) Run(ci interface{}) interface{} {
	c := ci.(*c09Case)
	if c.Kind == "gated" {
		return p.runGated(c)
	}
	if c.Kind == "replace" {
		return p.runReplace(c)
	}
	if c.Kind == "sweep" {
		return p.runSweep(c)
	}
	if c.Kind == "acked" {
		return p.runAcked(c)
	}
	if c.Kind == "nlresub" {
		return p.runNLResub(c)
	}
	if c.Kind == "params" {
		return p.runParams(c)
	}
	obs := &c09Obs{}
	e, err := newC09Env(nil)
	if err != nil {
		obs.Err = err.Error()
		return obs
	}
	defer e.prov.Shutdown()
	stubs := map[int]*hashGate{}
	stub := func(id int) *hashGate {
		if s, ok := stubs[id]; ok {
			return s
		}
		s := &hashGate{id: id, mu: &e.mu, recv: &e.recv}
		stubs[id] = s
		return s
	}
	for s := 1; s <= 6; s++ {
		stub(s)
	}
	for k, rd := range c.Rounds {
		ro := c09RoundObs{Pubs: [][]int{}, Probes: [][]int{}, RetQ: [][]int{}}
		start := make(chan struct{})
		var wg sync.WaitGroup
		hasRet := false
		for _, op := range rd.Ops {
			op := op
			if op.Op == "ret" {
				hasRet = true
			}
			wg.Add(1)
			go func() {
				defer wg.Done()
				<-start
				switch op.Op {
				case "sub":
					_ = e.prov.Subscribe(subReq(op.F, stubs[op.S], op.QoS))
				case "unsub":
					_ = e.prov.UnSubscribe(topicsTypes.UnSubscribeReq{Filter: op.F, S: stubs[op.S]})
				case "ret":
					m := mqttp.NewPublish(mqttp.ProtocolV311)
					pl := []byte{byte(op.Tag >> 8), byte(op.Tag)}
					if op.Empty {
						pl = []byte{}
					}
					_ = m.Set(op.F, pl, mqttp.QosType(op.QoS), true, false)
					_ = e.prov.Retain(m)
				}
			}()
		}
		ptags := make([]int, len(rd.Pubs))
		var pmu sync.Mutex
		for j, t := range rd.Pubs {
			j, t := j, t
			wg.Add(1)
			go func() {
				defer wg.Done()
				<-start
				pmu.Lock()
				ptags[j] = e.publish(t)
				pmu.Unlock()
			}()
		}
		done := make(chan struct{})
		go func() { wg.Wait(); close(done) }()
		close(start)
		select {
		case <-done:
		case <-time.After(10 * time.Second):
			obs.Err = fmt.Sprintf("round %d: operations did not complete (deadlock)", k)
			obs.Rounds = append(obs.Rounds, ro)
			return obs
		}
		if hasRet && !e.retBarrier() {
			obs.Err = fmt.Sprintf("round %d: retain barrier", k)
			return obs
		}
		if !e.pubBarrier() {
			obs.Err = fmt.Sprintf("round %d: publish barrier", k)
			return obs
		}
		for _, tg := range ptags {
			ro.Pubs = append(ro.Pubs, e.receivers(tg))
		}
		for _, t := range rd.Probes {
			tg := e.publish(t)
			if !e.pubBarrier() {
				obs.Err = fmt.Sprintf("round %d: publish barrier", k)
				return obs
			}
			ro.Probes = append(ro.Probes, e.receivers(tg))
		}
		for _, f := range rd.RetQ {
			r, _ := e.prov.Retained(f)
			t := []int{}
			for _, m := range r {
				if len(m.Payload()) >= 2 {
					t = append(t, (int(m.Payload()[0])<<8|int(m.Payload()[1]))*4+int(m.QoS()))
				}
			}
			sort.Ints(t)
			ro.RetQ = append(ro.RetQ, t)
		}
		obs.Rounds = append(obs.Rounds, ro)
	}
	return obs
}

// the gated schedules; the case is rewritten into the rounds the schedule amounts to, so that the same Coq
// check applies: operations that overlap in time form one round
func (p *c09Prop) gatedRounds(kind string) []c09Round {
	switch kind {
	case "detached-leaf":
		// s2 is the only subscriber of p/q. Subscribe(s1, p/q) has found the leaf and is held in Hash();
		// UnSubscribe(s2, p/q) runs to completion (prunes q and p); s1 is released and acknowledged.
		return []c09Round{
			{Ops: []c01Op{{Op: "sub", F: "p/q", S: 2, QoS: 0, RH: 2}}, Probes: []string{"p/q"}},
			{Ops: []c01Op{{Op: "sub", F: "p/q", S: 1, QoS: 0, RH: 2}, {Op: "unsub", F: "p/q", S: 2}}, Probes: []string{"p/q", "p/q"}},
		}
	case "double-cleanup":
		// s1, s2 on p/q, s3 on p/r. UnSubscribe(s1, p/q) has decremented the counter and is held in its second
		// Hash(); UnSubscribe(s2, p/q) runs to completion (prunes q); s1 is released and prunes q AGAIN.
		return []c09Round{
			{Ops: []c01Op{{Op: "sub", F: "p/q", S: 1, QoS: 0, RH: 2}}},
			{Ops: []c01Op{{Op: "sub", F: "p/q", S: 2, QoS: 0, RH: 2}}},
			{Ops: []c01Op{{Op: "sub", F: "p/r", S: 3, QoS: 0, RH: 2}}, Probes: []string{"p/r", "p/q"}},
			{Ops: []c01Op{{Op: "unsub", F: "p/q", S: 1}, {Op: "unsub", F: "p/q", S: 2}}, Probes: []string{"p/r", "p/q"}},
		}
	case "dup-unsub-behind-writer":
		// s1 on p/q, s3 on p/r. Subscribe(s9, x/y) is held inside its Hash() call (it holds the writers' mutex);
		// UnSubscribe(s1, p/q) arrives TWICE (a duplicate UNSUBSCRIBE, or a session clean-up racing an explicit one);
		// s9 is released. s3 must still be reachable.
		return []c09Round{
			{Ops: []c01Op{{Op: "sub", F: "p/q", S: 1, QoS: 0, RH: 2}}},
			{Ops: []c01Op{{Op: "sub", F: "p/r", S: 3, QoS: 0, RH: 2}}, Probes: []string{"p/r", "p/q"}},
			{Ops: []c01Op{{Op: "sub", F: "x/y", S: 9, QoS: 0, RH: 2}, {Op: "unsub", F: "p/q", S: 1}, {Op: "unsub", F: "p/q", S: 1}}, Probes: []string{"p/r", "p/q", "x/y"}},
		}
	case "resub-vs-publish":
		// s1 holds p/q and subscribes to it AGAIN; if that takes more than one step (more than one Hash() call), it
		// is held in the middle while a publish to p/q is routed: s1 is subscribed all the time and must receive it
		// (tried with the hold at the 2nd, 3rd and 4th Hash() call of the repeated SUBSCRIBE, one subscriber and topic each)
		var rs []c09Round
		for k := 2; k <= 4; k++ {
			f := fmt.Sprintf("p/h%d", k)
			rs = append(rs,
				c09Round{Ops: []c01Op{{Op: "sub", F: f, S: k - 1, QoS: 0, RH: 2}}},
				c09Round{Ops: []c01Op{{Op: "sub", F: f, S: k - 1, QoS: 1, RH: 2}}, Pubs: []string{f}, Probes: []string{f}})
		}
		return rs
	case "cleanup-vs-retain":
		// UnSubscribe(s1, p/q) is held in OnCleanUnsubscribe (q marked, not yet unlinked); a retained publish to
		// p/q arrives; s1 is released. The retained message must be there afterwards.
		return []c09Round{
			{Ops: []c01Op{{Op: "sub", F: "p/q", S: 1, QoS: 0, RH: 2}}},
			{Ops: []c01Op{{Op: "unsub", F: "p/q", S: 1}, {Op: "ret", F: "p/q", Tag: 7, QoS: 1}}, RetQ: []string{"p/q", "#"}},
		}
	default: // cleanup-vs-insert
		// UnSubscribe(s1, p/q) is held in OnCleanUnsubscribe (q marked, not yet unlinked); Subscribe(s2, p/q) and
		// Subscribe(s3, p/q/z) arrive (they must wait for the unlink and start over); s1 is released.
		return []c09Round{
			{Ops: []c01Op{{Op: "sub", F: "p/q", S: 1, QoS: 0, RH: 2}}},
			{Ops: []c01Op{{Op: "unsub", F: "p/q", S: 1}, {Op: "sub", F: "p/q", S: 2, QoS: 0, RH: 2}, {Op: "sub", F: "p/q/z", S: 3, QoS: 0, RH: 2}}, Probes: []string{"p/q", "p/q/z"}},
		}
	}
}

func (p *c09Prop) runGated(c *c09Case) interface{} {
	obs := &c09Obs{}
	var cleanGate, cleanReached chan struct{}
	var cleanOnce int32
	e, err := newC09Env(func(levels []string) {
		if cleanGate != nil && strings.Join(levels, "/") == "p/q" && atomic.CompareAndSwapInt32(&cleanOnce, 0, 1) {
			close(cleanReached)
			<-cleanGate
		}
	})
	if err != nil {
		obs.Err = err.Error()
		return obs
	}
	defer e.prov.Shutdown()
	mk := func(id int, gateAt int32) *hashGate {
		return &hashGate{id: id, gateAt: gateAt, reached: make(chan struct{}), release: make(chan struct{}), mu: &e.mu, recv: &e.recv}
	}
	probe := func(t string) []int {
		tg := e.publish(t)
		if !e.pubBarrier() {
			obs.Err = "publish barrier"
		}
		return e.receivers(tg)
	}
	wait := func(ch chan struct{}, what string) bool {
		select {
		case <-ch:
			return true
		case <-time.After(5 * time.Second):
			obs.Err = what
			return false
		}
	}
	// an operation issued while another one is held: it either completes (the protocol lets it pass the held
	// one) or waits for it (writers are serialised) - then it completes after the release
	during := func(f func()) chan struct{} {
		ch := make(chan struct{})
		go func() { f(); close(ch) }()
		select {
		case <-ch:
		case <-time.After(150 * time.Millisecond):
		}
		return ch
	}
	ro := func(probes ...[]int) c09RoundObs {
		return c09RoundObs{Pubs: [][]int{}, Probes: probes, RetQ: [][]int{}}
	}
	switch c.Gated {
	case "detached-leaf":
		s1, s2 := mk(1, 1), mk(2, 0)
		_ = e.prov.Subscribe(subReq("p/q", s2, 0))
		obs.Rounds = append(obs.Rounds, ro(probe("p/q")))
		acked := make(chan struct{})
		go func() { _ = e.prov.Subscribe(subReq("p/q", s1, 0)); close(acked) }()
		if !wait(s1.reached, "the subscribe did not reach Hash()") {
			return obs
		}
		u := during(func() { _ = e.prov.UnSubscribe(topicsTypes.UnSubscribeReq{Filter: "p/q", S: s2}) })
		close(s1.release)
		if !wait(acked, "the held subscribe was not acknowledged") || !wait(u, "the unsubscribe was not acknowledged") {
			return obs
		}
		obs.Rounds = append(obs.Rounds, ro(probe("p/q"), probe("p/q")))
	case "double-cleanup":
		s1, s2, s3 := mk(1, 3), mk(2, 0), mk(3, 0)
		_ = e.prov.Subscribe(subReq("p/q", s1, 0))
		obs.Rounds = append(obs.Rounds, ro())
		_ = e.prov.Subscribe(subReq("p/q", s2, 0))
		obs.Rounds = append(obs.Rounds, ro())
		_ = e.prov.Subscribe(subReq("p/r", s3, 0))
		obs.Rounds = append(obs.Rounds, ro(probe("p/r"), probe("p/q")))
		acked := make(chan struct{})
		go func() { _ = e.prov.UnSubscribe(topicsTypes.UnSubscribeReq{Filter: "p/q", S: s1}); close(acked) }()
		if !wait(s1.reached, "the unsubscribe did not reach its second Hash()") {
			return obs
		}
		u := during(func() { _ = e.prov.UnSubscribe(topicsTypes.UnSubscribeReq{Filter: "p/q", S: s2}) })
		close(s1.release)
		if !wait(acked, "the held unsubscribe was not acknowledged") || !wait(u, "the second unsubscribe was not acknowledged") {
			return obs
		}
		obs.Rounds = append(obs.Rounds, ro(probe("p/r"), probe("p/q")))
	case "dup-unsub-behind-writer":
		s1, s3, s9 := mk(1, 0), mk(3, 0), mk(9, 1)
		_ = e.prov.Subscribe(subReq("p/q", s1, 0))
		obs.Rounds = append(obs.Rounds, ro())
		_ = e.prov.Subscribe(subReq("p/r", s3, 0))
		obs.Rounds = append(obs.Rounds, ro(probe("p/r"), probe("p/q")))
		acked := make(chan struct{})
		go func() { _ = e.prov.Subscribe(subReq("x/y", s9, 0)); close(acked) }()
		if !wait(s9.reached, "the subscribe did not reach Hash()") {
			return obs
		}
		u1 := during(func() { _ = e.prov.UnSubscribe(topicsTypes.UnSubscribeReq{Filter: "p/q", S: s1}) })
		u2 := during(func() { _ = e.prov.UnSubscribe(topicsTypes.UnSubscribeReq{Filter: "p/q", S: s1}) })
		close(s9.release)
		if !wait(acked, "the held subscribe was not acknowledged") || !wait(u1, "unsubscribe not acknowledged") || !wait(u2, "duplicate unsubscribe not acknowledged") {
			return obs
		}
		obs.Rounds = append(obs.Rounds, ro(probe("p/r"), probe("p/q"), probe("x/y")))
	case "resub-vs-publish":
		for k := 2; k <= 4; k++ {
			f := fmt.Sprintf("p/h%d", k)
			s1 := mk(k-1, 0)
			_ = e.prov.Subscribe(subReq(f, s1, 0))
			obs.Rounds = append(obs.Rounds, ro())
			// hold the k-th Hash() call of the repeated SUBSCRIBE, if there is one
			atomic.StoreInt32(&s1.gateAt, atomic.LoadInt32(&s1.calls)+int32(k))
			acked := make(chan struct{})
			go func() { _ = e.prov.Subscribe(subReq(f, s1, 1)); close(acked) }()
			select {
			case <-s1.reached:
			case <-acked:
			case <-time.After(2 * time.Second):
			}
			tg := e.publish(f)
			if !e.pubBarrier() {
				obs.Err = "publish barrier"
				return obs
			}
			during := e.receivers(tg)
			select {
			case <-s1.reached:
				close(s1.release)
			default:
				atomic.StoreInt32(&s1.gateAt, 0)
			}
			if !wait(acked, "the repeated subscribe was not acknowledged") {
				return obs
			}
			obs.Rounds = append(obs.Rounds, c09RoundObs{Pubs: [][]int{during}, Probes: [][]int{probe(f)}, RetQ: [][]int{}})
		}
	case "cleanup-vs-retain":
		cleanGate, cleanReached = make(chan struct{}), make(chan struct{})
		s1 := mk(1, 0)
		_ = e.prov.Subscribe(subReq("p/q", s1, 0))
		obs.Rounds = append(obs.Rounds, ro())
		a1 := make(chan struct{})
		go func() { _ = e.prov.UnSubscribe(topicsTypes.UnSubscribeReq{Filter: "p/q", S: s1}); close(a1) }()
		if !wait(cleanReached, "the unsubscribe did not reach OnCleanUnsubscribe") {
			return obs
		}
		m := mqttp.NewPublish(mqttp.ProtocolV311)
		_ = m.Set("p/q", []byte{0, 7}, 1, true, false)
		// Retain stores before it returns: like the subscribes of cleanup-vs-insert it waits for the held unsubscribe
		ar := make(chan struct{})
		go func() { _ = e.prov.Retain(m); close(ar) }()
		time.Sleep(50 * time.Millisecond) // it has reached the structure lock
		close(cleanGate)
		if !wait(a1, "unsubscribe not acknowledged") || !wait(ar, "Retain did not return") {
			return obs
		}
		if !e.retBarrier() {
			obs.Err = "retain barrier"
			return obs
		}
		rq := func(f string) []int {
			r, _ := e.prov.Retained(f)
			t := []int{}
			for _, m := range r {
				if len(m.Payload()) >= 2 {
					t = append(t, (int(m.Payload()[0])<<8|int(m.Payload()[1]))*4+int(m.QoS()))
				}
			}
			sort.Ints(t)
			return t
		}
		obs.Rounds = append(obs.Rounds, c09RoundObs{Pubs: [][]int{}, Probes: [][]int{}, RetQ: [][]int{rq("p/q"), rq("#")}})
	default:
		cleanGate, cleanReached = make(chan struct{}), make(chan struct{})
		s1, s2, s3 := mk(1, 0), mk(2, 0), mk(3, 0)
		_ = e.prov.Subscribe(subReq("p/q", s1, 0))
		obs.Rounds = append(obs.Rounds, ro())
		a1, a2, a3 := make(chan struct{}), make(chan struct{}), make(chan struct{})
		go func() { _ = e.prov.UnSubscribe(topicsTypes.UnSubscribeReq{Filter: "p/q", S: s1}); close(a1) }()
		if !wait(cleanReached, "the unsubscribe did not reach OnCleanUnsubscribe") {
			return obs
		}
		go func() { _ = e.prov.Subscribe(subReq("p/q", s2, 0)); close(a2) }()
		go func() { _ = e.prov.Subscribe(subReq("p/q/z", s3, 0)); close(a3) }()
		time.Sleep(20 * time.Millisecond) // let them run into the marked node
		close(cleanGate)
		if !wait(a1, "unsubscribe not acknowledged") || !wait(a2, "subscribe not acknowledged (deadlock)") || !wait(a3, "subscribe not acknowledged (deadlock)") {
			return obs
		}
		obs.Rounds = append(obs.Rounds, ro(probe("p/q"), probe("p/q/z")))
	}
	return obs
}

func (p *c09Prop) Suspect(oi interface{}) bool { return oi.(*c09Obs).Err != "" }

func (p *c09Prop) runReplace(c *c09Case) interface{} {
	obs := &c09Obs{}
	e, err := newC09Env(nil)
	if err != nil {
		obs.Err = err.Error()
		return obs
	}
	defer e.prov.Shutdown()
	const topic = "rp/t"
	mk := func(tag int) *mqttp.Publish {
		m := mqttp.NewPublish(mqttp.ProtocolV311)
		_ = m.Set(topic, []byte{byte(tag >> 8), byte(tag)}, mqttp.QosType(c.RQoS), true, false)
		return m
	}
	tagOf := func(r []*mqttp.Publish) int {
		if len(r) != 1 || len(r[0].Payload()) < 2 {
			return 0
		}
		return int(r[0].Payload()[0])<<8 | int(r[0].Payload()[1])
	}
	_ = e.prov.Retain(mk(1))
	deadline := time.Now().Add(5 * time.Second)
	for {
		if r, _ := e.prov.Retained(topic); tagOf(r) == 1 {
			break
		}
		if time.Now().After(deadline) {
			obs.Err = "the first retained message never became visible"
			return obs
		}
		time.Sleep(50 * time.Microsecond)
	}
	done := make(chan struct{})
	go func() {
		for tag := 2; tag <= c.K; tag++ {
			_ = e.prov.Retain(mk(tag))
			if tag%16 == 0 {
				time.Sleep(20 * time.Microsecond) // keep the retainer's channel short: the reads spread over the whole run
			}
		}
		close(done)
	}()
	rep := &c09Replace{Monotone: true}
	last := 1
	read := func() int {
		r, _ := e.prov.Retained(topic)
		t := tagOf(r)
		rep.Reads++
		if t == 0 {
			rep.Empty++
		} else {
			if t < last {
				rep.Monotone = false
			}
			last = t
		}
		return t
	}
	for running := true; running; {
		select {
		case <-done:
			running = false
		default:
			read()
		}
	}
	// the retainer goroutine may still be working its channel off
	deadline = time.Now().Add(5 * time.Second)
	for read() != c.K && time.Now().Before(deadline) {
	}
	r, _ := e.prov.Retained(topic)
	rep.Final = []int{}
	for _, m := range r {
		if len(m.Payload()) >= 2 {
			rep.Final = append(rep.Final, (int(m.Payload()[0])<<8|int(m.Payload()[1]))*4+int(m.QoS()))
		}
	}
	obs.Rep = rep
	return obs
}

type mixStub struct{ n, mixed int64 }

func (s *mixStub) Hash() uintptr { return 777 }
func (s *mixStub) Publish(m *mqttp.Publish, q mqttp.QosType, o mqttp.SubscriptionOptions, ids []uint32) error {
	if m.Topic() != "m/t" {
		return nil
	}
	id := uint32(0)
	if len(ids) > 0 {
		id = ids[0]
	}
	if !((q == 0 && id == 1 && o.QoS() == 0) || (q == 1 && id == 2 && o.QoS() == 1)) {
		atomic.AddInt64(&s.mixed, 1)
	}
	atomic.AddInt64(&s.n, 1)
	return nil
}

func (p *c09Prop) runParams(c *c09Case) interface{} {
	obs := &c09Obs{}
	e, err := newC09Env(nil)
	if err != nil {
		obs.Err = err.Error()
		return obs
	}
	defer e.prov.Shutdown()
	st := &mixStub{}
	sub := func(q byte, id uint32) {
		e.prov.Subscribe(topicsTypes.SubscribeReq{Filter: "m/t", S: st, Params: vlsubscriber.SubscriptionParams{ID: id, Ops: mqttp.SubscriptionOptions(q | 0x20)}})
	}
	sub(0, 1)
	var stop int32
	done := make(chan struct{})
	go func() {
		defer close(done)
		for i := 0; atomic.LoadInt32(&stop) == 0; i++ {
			if i%2 == 0 {
				sub(1, 2)
			} else {
				sub(0, 1)
			}
		}
	}()
	deadline := time.Now().Add(20 * time.Second)
	for k := 0; k < c.K && time.Now().Before(deadline); k++ {
		m := mqttp.NewPublish(mqttp.ProtocolV311)
		_ = m.Set("m/t", []byte{1}, 1, false, false)
		_ = e.prov.Publish(m)
		for atomic.LoadInt64(&st.n) <= int64(k) && time.Now().Before(deadline) {
		}
	}
	atomic.StoreInt32(&stop, 1)
	<-done
	obs.Mix = &[2]int{int(atomic.LoadInt64(&st.n)), int(atomic.LoadInt64(&st.mixed))}
	if obs.Mix[0] < c.K {
		obs.Err = fmt.Sprintf("only %d of %d publishes were delivered", obs.Mix[0], c.K)
	}
	return obs
}

// acked: K rounds of "Retain(m) has returned, then Subscribe": the operations are issued one after the other by ONE
// caller, so the order consistent with their acknowledgements is the order of the calls - the subscription is handed
// the retained message
// nlresub: the overlap option is on; a session holds a No-Local subscription, publishes to it itself (the subscription is
// passed over), and subscribes to the same filter again: K rounds, every SUBSCRIBE must be acknowledged (no operation of
// the index may leave something locked behind it)
func (p *c09Prop) runNLResub(c *c09Case) interface{} {
	obs := &c09Obs{}
	m := metrics.New()
	cfg := topicsTypes.NewMemConfig()
	cfg.MetricsPackets = m.Packets()
	cfg.MetricsSubs = m.Subs()
	cfg.OverlappingSubscriptions = true
	prov, err := memlockfree.NewMemProvider(cfg)
	if err != nil {
		obs.Err = err.Error()
		return obs
	}
	var mu sync.Mutex
	var recv [][2]int
	lost := 0
	for it := 0; it < c.K && lost == 0; it++ {
		topic := fmt.Sprintf("nl/%d", it%7)
		st := &hashGate{id: 500 + it%3, mu: &mu, recv: &recv}
		nl := topicsTypes.SubscribeReq{Filter: topic, S: st, Params: vlsubscriber.SubscriptionParams{Ops: mqttp.SubscriptionOptions(byte(it%3) | 0x04 | 0x20)}}
		plain := topicsTypes.SubscribeReq{Filter: "nl/#", S: st, Params: vlsubscriber.SubscriptionParams{Ops: mqttp.SubscriptionOptions(0x20)}}
		step := func(f func()) bool {
			done := make(chan struct{})
			go func() { f(); close(done) }()
			select {
			case <-done:
				return true
			case <-time.After(3 * time.Second):
				return false
			}
		}
		ok := step(func() { _ = prov.Subscribe(plain) }) && step(func() { _ = prov.Subscribe(nl) })
		if ok {
			pm := mqttp.NewPublish(mqttp.ProtocolV50)
			_ = pm.Set(topic, []byte{0, 1}, 0, false, false)
			pm.SetPublishID(st.Hash())
			_ = prov.Publish(pm)
			time.Sleep(200 * time.Microsecond)
			ok = step(func() { _ = prov.Subscribe(nl) }) && step(func() { _ = prov.UnSubscribe(topicsTypes.UnSubscribeReq{Filter: topic, S: st}) })
		}
		if !ok {
			lost++
		}
	}
	if lost == 0 {
		_ = prov.Shutdown()
	}
	obs.Lost = &lost
	return obs
}

func (p *c09Prop) runAcked(c *c09Case) interface{} {
	obs := &c09Obs{}
	e, err := newC09Env(nil)
	if err != nil {
		obs.Err = err.Error()
		return obs
	}
	defer e.prov.Shutdown()
	lost := 0
	for it := 0; it < c.K; it++ {
		topic := fmt.Sprintf("ak/%d/t", it)
		m := mqttp.NewPublish(mqttp.ProtocolV50)
		_ = m.Set(topic, []byte{0, 1}, 1, true, false)
		_ = e.prov.Retain(m)
		if it%2 == 1 {
			// as a client's retained PUBLISH does: stored AND routed
			_ = e.prov.Publish(m)
		}
		st := &hashGate{id: 1000 + it, mu: &e.mu, recv: &e.recv}
		// Retain Handling 0: send retained messages at the time of the subscribe
		resp := e.prov.Subscribe(topicsTypes.SubscribeReq{Filter: topic, S: st, Params: vlsubscriber.SubscriptionParams{Ops: mqttp.SubscriptionOptions(1)}})
		if resp.Err != nil {
			obs.Err = resp.Err.Error()
			return obs
		}
		if len(resp.Retained) != 1 {
			lost++
		}
	}
	obs.Lost = &lost
	return obs
}

func (p *c09Prop) runSweep(c *c09Case) interface{} {
	obs := &c09Obs{}
	e, err := newC09Env(nil)
	if err != nil {
		obs.Err = err.Error()
		return obs
	}
	defer e.prov.Shutdown()
	prov := e.prov
	mk := func(topic string, tag byte, expired bool) *mqttp.Publish {
		m := mqttp.NewPublish(mqttp.ProtocolV50)
		_ = m.Set(topic, []byte{0, tag}, 1, true, false)
		if expired {
			m.SetExpireAt(time.Now().Add(-time.Hour))
		}
		return m
	}
	poll := func(want int) bool {
		deadline := time.Now().Add(5 * time.Second)
		for time.Now().Before(deadline) {
			if r, _ := prov.Retained("zz/b"); len(r) == want {
				return true
			}
		}
		return false
	}
	// the retainer is one goroutine behind a FIFO channel: when a later retain is visible the earlier ones are done
	barrier := func() bool {
		_ = prov.Retain(mk("zz/b", 1, false))
		if !poll(1) {
			return false
		}
		m := mqttp.NewPublish(mqttp.ProtocolV311)
		_ = m.Set("zz/b", []byte{}, 1, true, false)
		_ = prov.Retain(m)
		return poll(0)
	}
	lost := 0
	for it := 0; it < c.K; it++ {
		_ = prov.Retain(mk("e/t", 1, true))
		if !barrier() {
			obs.Err = "retain barrier timed out"
			return obs
		}
		var wg sync.WaitGroup
		start := make(chan struct{})
		for g := 0; g < 6; g++ {
			wg.Add(1)
			go func() {
				defer wg.Done()
				<-start
				for k := 0; k < 20; k++ {
					_, _ = prov.Retained("e/t")
				}
			}()
		}
		wg.Add(1)
		go func() {
			defer wg.Done()
			<-start
			_ = prov.Retain(mk("e/t", 2, false))
		}()
		close(start)
		wg.Wait()
		if !barrier() {
			obs.Err = "retain barrier timed out"
			return obs
		}
		if r, _ := prov.Retained("e/t"); len(r) != 1 {
			lost++
		}
	}
	obs.Lost = &lost
	return obs
}

func c09OpTerm(op c01Op) string {
	switch op.Op {
	case "sub":
		return fmt.Sprintf("(OSub %s %d (mkSP %d false false %d 0))", cBytes([]byte(op.F)), op.S, op.QoS, op.RH)
	case "unsub":
		return fmt.Sprintf("(OUnsub %s %d)", cBytes([]byte(op.F)), op.S)
	default:
		return fmt.Sprintf("(ORetain %s (mkMsg %d %d false) %s true)", cBytes([]byte(op.F)), op.Tag, op.QoS, cBool(op.Empty))
	}
}

func (p *c09Prop) Coq(ci interface{}, oi interface{}) string {
	c := ci.(*c09Case)
	o := oi.(*c09Obs)
	rounds := c.Rounds
	if c.Kind == "gated" {
		rounds = p.gatedRounds(c.Gated)
	}
	if c.Kind == "params" {
		if o.Mix == nil {
			return "(mkCase9 [] false)"
		}
		return fmt.Sprintf("(mkCase9 [HParams %d %d] %s)", o.Mix[0], o.Mix[1], cBool(o.Err == ""))
	}
	if c.Kind == "sweep" {
		if o.Lost == nil {
			return "(mkCase9 [] false)"
		}
		return fmt.Sprintf("(mkCase9 [HSweep %d %d] %s)", c.K, *o.Lost, cBool(o.Err == ""))
	}
	if c.Kind == "nlresub" {
		if o.Lost == nil {
			return "(mkCase9 [] false)"
		}
		return fmt.Sprintf("(mkCase9 [HAcked %d %d] %s)", c.K, *o.Lost, cBool(o.Err == ""))
	}
	if c.Kind == "acked" {
		if o.Lost == nil {
			return "(mkCase9 [] false)"
		}
		return fmt.Sprintf("(mkCase9 [HAcked %d %d] %s)", c.K, *o.Lost, cBool(o.Err == ""))
	}
	if c.Kind == "replace" {
		if o.Rep == nil {
			return "(mkCase9 [] false)"
		}
		return fmt.Sprintf("(mkCase9 [HReplace %s %d %d %d %d %s; HRetQ9 %s %s] %s)", cBytes([]byte("rp/t")), c.RQoS, c.K, o.Rep.Reads, o.Rep.Empty, cBool(o.Rep.Monotone),
			cBytes([]byte("rp/t")), cInts(o.Rep.Final), cBool(o.Err == ""))
	}
	hs := []string{}
	for i, rd := range rounds {
		if i >= len(o.Rounds) {
			break
		}
		ro := o.Rounds[i]
		ops := make([]string, len(rd.Ops))
		for j, op := range rd.Ops {
			ops[j] = c09OpTerm(op)
		}
		cp := []string{}
		for j, t := range rd.Pubs {
			if j < len(ro.Pubs) {
				cp = append(cp, fmt.Sprintf("(%s, %s)", cBytes([]byte(t)), cInts(ro.Pubs[j])))
			}
		}
		hs = append(hs, fmt.Sprintf("(HBatch %s %s)", cList(ops), cList(cp)))
		for j, t := range rd.Probes {
			if j < len(ro.Probes) {
				hs = append(hs, fmt.Sprintf("(HPub9 %s %s)", cBytes([]byte(t)), cInts(ro.Probes[j])))
			}
		}
		for j, f := range rd.RetQ {
			if j < len(ro.RetQ) {
				hs = append(hs, fmt.Sprintf("(HRetQ9 %s %s)", cBytes([]byte(f)), cInts(ro.RetQ[j])))
			}
		}
	}
	return fmt.Sprintf("(mkCase9 %s %s)", cList(hs), cBool(o.Err == "" && len(o.Rounds) == len(rounds)))
}

func (p *c09Prop) Class(ci interface{}, oi interface{}) (string, bool) {
	c := ci.(*c09Case)
	if c.Kind == "gated" {
		return "gated-" + c.Gated, true
	}
	if c.Kind == "replace" {
		return fmt.Sprintf("replace-qos%d", c.RQoS), true
	}
	if c.Kind == "sweep" {
		return "expiry-sweep-vs-fresh-retain", true
	}
	if c.Kind == "params" {
		return "publish-vs-resubscribe-params", true
	}
	n := 0
	for _, rd := range c.Rounds {
		if len(rd.Ops) > 1 {
			n++
		}
	}
	return "rounds", n > 0
}
