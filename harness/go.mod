module verifharness

go 1.13

require (
	github.com/VolantMQ/vlapi v0.5.6
	github.com/VolantMQ/volantmq v0.0.0
	github.com/gobwas/ws v1.0.2
	github.com/troian/healthcheck v0.1.3
	gitlab.com/VolantMQ/vlplugin/persistence/mem v0.0.7
)

replace github.com/VolantMQ/volantmq => /repo
