module verifharness

go 1.13

require (
	github.com/VolantMQ/volantmq v0.0.0
	github.com/gobwas/ws v1.0.2
)

replace github.com/VolantMQ/volantmq => /repo
