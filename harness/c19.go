package main

import (
	"context"
	"net"

	gws "github.com/gobwas/ws"

	"encoding/json"
	"fmt"
	"github.com/VolantMQ/volantmq/transport"
	"io"
	"time"

	"github.com/VolantMQ/vlapi/mqttp"
)

// C19: real-time runs (a few seconds each, many in parallel).  "keep": a connection with keep-alive K
// (or a forced server keep-alive) sends packets at scripted times and then stays silent; the time of
// closure is measured from CONNACK.  "conn": a socket that never sends CONNECT.

type c19Case struct {
	Kind    string `json:"kind"`
	Force   bool   `json:"force,omitempty"`
	Period  int    `json:"period,omitempty"`
	K       int    `json:"k"`
	Sends   []int  `json:"sends,omitempty"` // ms since CONNACK
	What    []int  `json:"what,omitempty"`  // 0 PINGREQ, 1 PUBLISH qos0, 2 SUBSCRIBE
	Frag    bool   `json:"frag,omitempty"`  // PINGREQs only, every segment ends in the MIDDLE of a packet: "C0", then "00 C0" at each send time
	Horizon int    `json:"horizon"`
	CT      int    `json:"ct,omitempty"`
	// kind "conn": the socket is opened at a listener of the whole server: "tcp", "ws" (upgraded to WebSocket, then
	// silent), "wsraw" (a TCP connection to the WebSocket listener that never sends its upgrade request); "": handed to
	// the session manager directly
	Via string `json:"via,omitempty"`
	// kind "conn", Via "": the client is not silent but SLOW: half a CONNECT at once, then one byte every 300 ms - the
	// CONNECT is not complete within the connect timeout, the socket is closed all the same and never answered
	Trickle bool `json:"trickle,omitempty"`
}

type c19Obs struct {
	Closed   bool   `json:"closed"`
	ClosedAt int    `json:"at"`
	Will     bool   `json:"will"`
	Sent     []int  `json:"sent,omitempty"` // actual send times
	Err      string `json:"err,omitempty"`
}

type c19Prop struct{}

func init() { props["C19"] = &c19Prop{} }

func (p *c19Prop) ID() string { return "C19" }
func (p *c19Prop) Header() string {
	return "From Coq Require Import List ZArith.\nImport ListNotations.\nFrom VMQ Require Import chk.C19chk.\nOpen Scope Z_scope.\n"
}
func (p *c19Prop) Parallel() int { return 24 }

func (p *c19Prop) Gen(r *Rng, i int, tier string) interface{} {
	if i%6 == 5 {
		ct := 1 + r.Intn(2)
		cc := &c19Case{Kind: "conn", CT: ct, Horizon: ct*1500 + 2500, Via: []string{"", "", "tcp", "ws", "wsraw"}[r.Intn(5)]}
		cc.Trickle = cc.Via == "" && r.Bool()
		return cc
	}
	c := &c19Case{Kind: "keep", K: []int{1, 2, 2, 3, 0}[r.Intn(5)]}
	if r.Chance(30) {
		c.Force = true
		c.Period = 1 + r.Intn(2)
		if r.Chance(40) {
			c.K = 0 // the forced period applies to a client that asked for none, too
		}
	}
	ke := c.K
	if c.Force {
		ke = c.Period
	}
	// traffic: nothing / a cadence strictly inside the deadline / a cadence that eventually exceeds it
	t := 0
	n := r.Intn(5)
	d := ke + ke/2
	for j := 0; j < n && ke > 0; j++ {
		gap := d*1000 - 350 - r.Intn(400) // clearly inside the deadline
		if ke >= 2 && r.Bool() {
			gap = ke*1000 - r.Intn(300) // at most K
		}
		if gap < 100 {
			gap = 100
		}
		t += gap
		c.Sends = append(c.Sends, t)
		c.What = append(c.What, r.Intn(3))
	}
	if len(c.Sends) > 0 && r.Chance(25) {
		c.Frag = true
	}
	c.Horizon = t + d*1000 + 2500
	if ke == 0 {
		c.Horizon = 3000
	}
	return c
}

func (p *c19Prop) Decode(raw json.RawMessage) (interface{}, error) {
	c := &c19Case{}
	return c, json.Unmarshal(raw, c)
}

func (p *c19Prop) runConnVia(c *c19Case) interface{} {
	obs := &c19Obs{}
	_, srv, cleanup, msg := newLisServerCT(c.CT)
	if msg != "" {
		obs.Err = msg
		return obs
	}
	defer cleanup.f()
	defer func() { _ = srv.Shutdown() }()
	port := freePort()
	var lerr error
	if c.Via == "tcp" {
		lerr = srv.ListenAndServe(transport.NewConfigTCP(&transport.Config{AuthManager: cleanup.am, Host: "127.0.0.1", Port: port}))
	} else {
		lerr = srv.ListenAndServe(transport.NewConfigWS(&transport.Config{AuthManager: cleanup.am, Host: "127.0.0.1", Port: port}))
	}
	if lerr != nil {
		obs.Err = "listener: " + lerr.Error()
		return obs
	}
	var cn net.Conn
	var err error
	deadline := time.Now().Add(3 * time.Second)
	var t0 time.Time
	for {
		t0 = time.Now()
		if c.Via == "ws" {
			d := gws.Dialer{Protocols: []string{"mqtt"}, Timeout: 2 * time.Second}
			cn, _, _, err = d.Dial(context.Background(), "ws://127.0.0.1:"+port+"/")
		} else {
			cn, err = net.DialTimeout("tcp", "127.0.0.1:"+port, 2*time.Second)
		}
		if err == nil || time.Now().After(deadline) {
			break
		}
		time.Sleep(20 * time.Millisecond)
	}
	if err != nil {
		obs.Err = "dial: " + err.Error()
		return obs
	}
	defer cn.Close()
	_ = cn.SetReadDeadline(t0.Add(time.Duration(c.Horizon) * time.Millisecond))
	buf := make([]byte, 64)
	for {
		_, err := cn.Read(buf)
		if err == nil {
			continue // a WebSocket close frame, an HTTP answer: what counts is the end of the connection
		}
		if ne, ok := err.(net.Error); ok && ne.Timeout() {
			return obs
		}
		obs.Closed = true
		obs.ClosedAt = int(time.Since(t0) / time.Millisecond)
		return obs
	}
}

// Run: the cases are schedules in wall-clock time. An attempt in which the harness itself missed its own schedule by
// more than 150 ms (the whole process was held up: the broker's timers ran late with it, and whether a packet or a
// deadline came first is then anybody's guess) says nothing about the broker: the case is run again, twice at most
func (p *c19Prop) Run(ci interface{}) interface{} {
	c := ci.(*c19Case)
	var o *c19Obs
	for attempt := 0; attempt < 3; attempt++ {
		o = p.runOnce(c).(*c19Obs)
		late := false
		for j, at := range o.Sent {
			if j < len(c.Sends) && at-c.Sends[j] > 150 {
				late = true
			}
		}
		if !late {
			break
		}
	}
	return o
}

func (p *c19Prop) runOnce(c *c19Case) interface{} {
	obs := &c19Obs{}
	if c.Kind == "conn" && c.Via != "" {
		return p.runConnVia(c)
	}
	opts := BrokerOpts{KeepAliveForce: c.Force, KeepAlivePeriod: c.Period}
	if c.Kind == "conn" {
		opts.ConnectTimeout = c.CT
	} else {
		// a short connect timeout: once the connection is established it must play no role any more
		// (keep-alive 0 has to DISABLE the timer, not leave the connect deadline armed)
		opts.ConnectTimeout = 1
	}
	b, err := NewBroker(opts)
	if err != nil {
		obs.Err = err.Error()
		return obs
	}
	defer b.Drop()
	if c.Kind == "conn" {
		t0 := time.Now() // before the broker can have armed anything
		cl := b.Dial()
		if c.Trickle {
			cp := mqttp.NewConnect(mqttp.ProtocolV311)
			cp.SetClean(true)
			_ = cp.SetClientID([]byte("a-client-id-of-some-length"))
			raw, _ := mqttp.Encode(cp)
			go func() {
				if cl.SendRaw(raw[:8]) != nil {
					return
				}
				for _, x := range raw[8:] {
					time.Sleep(300 * time.Millisecond)
					if cl.SendRaw([]byte{x}) != nil {
						return
					}
				}
			}()
		}
		_ = cl.conn.SetReadDeadline(t0.Add(time.Duration(c.Horizon) * time.Millisecond))
		buf := make([]byte, 16)
		n, err := cl.conn.Read(buf)
		if n > 0 {
			obs.Err = "the socket was answered although its CONNECT was not complete within the connect timeout"
			return obs
		}
		if err == io.EOF || err == io.ErrClosedPipe {
			obs.Closed = true
			obs.ClosedAt = int(time.Since(t0) / time.Millisecond)
		}
		return obs
	}
	// watcher for the will
	wc := b.Dial()
	if _, err := wc.Connect(ConnectOpts{ID: "watcher", Ver: mqttp.ProtocolV311, Clean: true}); err != nil {
		obs.Err = "watcher: " + err.Error()
		return obs
	}
	w := wc.Auto(false)
	_ = w.SendL(mkSubscribe(mqttp.ProtocolV311, 1, []string{"will/#"}, []byte{0}))
	if !w.WaitFor(5*time.Second, func() bool { return len(w.Others) >= 1 }) {
		obs.Err = "watcher: no suback"
		return obs
	}
	// a forced server keep-alive applies to the watcher too: keep it alive
	stopPing := make(chan struct{})
	defer close(stopPing)
	go func() {
		for {
			select {
			case <-stopPing:
				return
			case <-time.After(300 * time.Millisecond):
				_ = w.SendL(mqttp.NewPingReq(mqttp.ProtocolV311))
			}
		}
	}()
	will := mqttp.NewPublish(mqttp.ProtocolV311)
	_ = will.Set("will/x", []byte{1}, 0, false, false)
	cl := b.Dial()
	// every time stamp is taken BEFORE the packet it belongs to is written: the broker re-arms its timer when it
	// reads the packet, which is later, so "closed at - last time stamp" never under-estimates the silence the
	// broker has seen (the check allows no slack below a deadline); the slack above covers the round trips
	t0 := time.Now()
	if _, err := cl.Connect(ConnectOpts{ID: "kx", Ver: mqttp.ProtocolV311, Clean: true, KeepAlive: uint16(c.K), Will: will}); err != nil {
		obs.Err = "connect: " + err.Error()
		return obs
	}
	a := cl.Auto(false)
	if c.Frag {
		_ = a.SendRaw([]byte{0xC0})
	}
	for j, at := range c.Sends {
		time.Sleep(time.Until(t0.Add(time.Duration(at) * time.Millisecond)))
		sentAt := int(time.Since(t0) / time.Millisecond)
		switch what := c.What[j]; {
		case c.Frag:
			// completes one PINGREQ and starts the next: the broker's reader never sees its buffer empty at a packet boundary
			_ = a.SendRaw([]byte{0x00, 0xC0})
		case what == 0:
			_ = a.Send(mqttp.NewPingReq(mqttp.ProtocolV311))
		case what == 1:
			_ = a.Send(mkPublish(mqttp.ProtocolV311, "k/x", []byte{2}, 0, false, 0))
		default:
			_ = a.Send(mkSubscribe(mqttp.ProtocolV311, uint16(j+1), []string{"k/y"}, []byte{0}))
		}
		obs.Sent = append(obs.Sent, sentAt)
		if a.Closed() {
			break
		}
	}
	deadline := t0.Add(time.Duration(c.Horizon) * time.Millisecond)
	for time.Now().Before(deadline) {
		if a.Closed() {
			obs.Closed = true
			obs.ClosedAt = int(time.Since(t0) / time.Millisecond)
			break
		}
		time.Sleep(2 * time.Millisecond)
	}
	if obs.Closed {
		obs.Will = w.WaitFor(3*time.Second, func() bool { return len(w.Pubs) >= 1 })
	}
	return obs
}

func (p *c19Prop) Coq(ci interface{}, oi interface{}) string {
	c := ci.(*c19Case)
	o := oi.(*c19Obs)
	if c.Kind == "conn" {
		return fmt.Sprintf("(CConn %d %d %s %d %s)", c.CT, c.Horizon, cBool(o.Closed), o.ClosedAt, cBool(o.Err == ""))
	}
	sends := make([]string, len(o.Sent))
	for i, s := range o.Sent {
		sends[i] = fmt.Sprintf("%d", s)
	}
	return fmt.Sprintf("(CKeep %s %d %d %s %d %s %d %s %s)", cBool(c.Force), c.Period, c.K, cList(sends), c.Horizon, cBool(o.Closed), o.ClosedAt, cBool(o.Will), cBool(o.Err == ""))
}

func (p *c19Prop) Class(ci interface{}, oi interface{}) (string, bool) {
	c := ci.(*c19Case)
	if c.Kind == "conn" {
		return fmt.Sprintf("connect-timeout-%d", c.CT), true
	}
	l := fmt.Sprintf("k%d", c.K)
	if c.Force {
		l += fmt.Sprintf("+forced%d", c.Period)
	}
	if len(c.Sends) > 0 {
		l += "+traffic"
	}
	if c.Frag {
		l += "+fragmented"
	}
	return l, true
}
