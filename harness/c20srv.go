package main

import (
	"context"
	"fmt"
	"net"
	"sync"
	"sync/atomic"
	"time"

	"github.com/VolantMQ/vlapi/mqttp"
	"github.com/VolantMQ/vlapi/vlauth"
	gws "github.com/gobwas/ws"
	"github.com/gobwas/ws/wsutil"
	"github.com/troian/healthcheck"
	persistenceMem "gitlab.com/VolantMQ/vlplugin/persistence/mem"

	"github.com/VolantMQ/volantmq/auth"
	"github.com/VolantMQ/volantmq/configuration"
	"github.com/VolantMQ/volantmq/metrics"
	"github.com/VolantMQ/volantmq/server"
	"github.com/VolantMQ/volantmq/transport"
)

// C20, listener level: the whole server (server.NewServer + a TCP and a WebSocket listener) with connections that
// are established or still in their MQTT handshake when Shutdown is called.
//   conn kinds: 0 TCP established | 1 TCP connected, nothing sent | 2 WebSocket established | 3 WebSocket upgraded, nothing sent

type lisCase struct {
	Conns []int `json:"conns"`
}

type lisObs struct {
	Returned     bool   `json:"returned"`
	Closed       []bool `json:"closed"`
	AcceptsAfter bool   `json:"acceptsAfter"`
	LateConnack  bool   `json:"lateConnack"`
}

type noHealth struct{}

func (noHealth) AddLivenessCheck(string, healthcheck.Check) error  { return nil }
func (noHealth) AddReadinessCheck(string, healthcheck.Check) error { return nil }
func (noHealth) RemoveLivenessCheck(string) error                  { return nil }
func (noHealth) RemoveReadinessCheck(string) error                 { return nil }

func freePort() string {
	l, err := net.Listen("tcp", "127.0.0.1:0")
	if err != nil {
		return "0"
	}
	defer l.Close()
	return fmt.Sprintf("%d", l.Addr().(*net.TCPAddr).Port)
}

type lisConn struct {
	kind int
	c    net.Conn
}

func (lc *lisConn) send(b []byte) error {
	if lc.kind >= 2 {
		return wsutil.WriteClientBinary(lc.c, b)
	}
	_, err := lc.c.Write(b)
	return err
}

// recv returns the next MQTT packet bytes (one WebSocket frame / whatever one read returns), or an error
func (lc *lisConn) recv(d time.Duration) ([]byte, error) {
	_ = lc.c.SetReadDeadline(time.Now().Add(d))
	if lc.kind >= 2 {
		b, _, err := wsutil.ReadServerData(lc.c)
		return b, err
	}
	buf := make([]byte, 256)
	n, err := lc.c.Read(buf)
	return buf[:n], err
}

// runAcceptRace: TCP connections are dialled WHILE the server shuts down: whichever of them the listener has accepted is
// closed by the broker (C20 "every open connection is closed"); one the kernel still held is reset by closing the listener
func runAcceptRace() (*stallObs, string) {
	obs := &stallObs{OK: true, Closed: true}
	for round := 0; round < 160; round++ {
		lo, srv, cleanup, msg := newLisServer()
		if msg != "" {
			return lo2stall(lo), msg
		}
		tcpPort := freePort()
		if err := srv.ListenAndServe(transport.NewConfigTCP(&transport.Config{AuthManager: cleanup.am, Host: "127.0.0.1", Port: tcpPort})); err != nil {
			cleanup.f()
			return obs, "tcp listener: " + err.Error()
		}
		// wait for the listener
		for k := 0; k < 100; k++ {
			if cn, err := net.DialTimeout("tcp", "127.0.0.1:"+tcpPort, 200*time.Millisecond); err == nil {
				_ = cn.Close()
				break
			}
			time.Sleep(10 * time.Millisecond)
		}
		time.Sleep(20 * time.Millisecond)
		var mu sync.Mutex
		var got []net.Conn
		var wg sync.WaitGroup
		start := make(chan struct{})
		wg.Add(1)
		go func() { // ONE connection, dialled around the moment the shutdown begins: the listener is idle in Accept
			defer wg.Done()
			<-start
			time.Sleep(time.Duration(round%16) * 10 * time.Microsecond)
			if cn, err := net.DialTimeout("tcp", "127.0.0.1:"+tcpPort, 100*time.Millisecond); err == nil {
				mu.Lock()
				got = append(got, cn)
				mu.Unlock()
			}
		}()
		done := make(chan struct{})
		close(start)
		time.Sleep(time.Duration(round/16%10) * 10 * time.Microsecond)
		go func() { _ = srv.Shutdown(); close(done) }()
		select {
		case <-done:
		case <-time.After(10 * time.Second):
			obs.Closed = false
		}
		wg.Wait()
		open := 0
		for _, cn := range got {
			closed := false
			dl := time.Now().Add(1400 * time.Millisecond) // the connect timeout is 1 s
			buf := make([]byte, 16)
			for time.Now().Before(dl) && !closed {
				_ = cn.SetReadDeadline(time.Now().Add(250 * time.Millisecond))
				if _, err := cn.Read(buf); err != nil {
					if ne, ok := err.(net.Error); ok && ne.Timeout() {
						continue
					}
					closed = true
				}
			}
			if !closed {
				// nothing has come: either the broker holds the socket and serves nobody on it, or the kernel dropped a
				// connection nobody had accepted when the listener was closed, without a word - then a write is answered
				// by a reset
				_, _ = cn.Write([]byte{0xC0, 0x00})
				_ = cn.SetReadDeadline(time.Now().Add(time.Second))
				if _, err := cn.Read(buf); err != nil {
					if ne, ok := err.(net.Error); !ok || !ne.Timeout() {
						closed = true
					}
				}
			}
			if !closed {
				open++
			}
			_ = cn.Close()
		}
		cleanup.f()
		if open > 0 {
			obs.OK = false
			return obs, fmt.Sprintf("round %d: %d of %d connections established while the server was shutting down were never closed by it", round, open, len(got))
		}
		if !obs.Closed {
			return obs, "Shutdown did not return"
		}
	}
	return obs, ""
}

func lo2stall(*lisObs) *stallObs { return &stallObs{} }

type lisCleanup struct {
	am *auth.Manager
	f  func()
}

func newLisServer() (*lisObs, server.Server, lisCleanup, string) { return newLisServerCT(1) }

func newLisServerCT(ct int) (*lisObs, server.Server, lisCleanup, string) {
	obs := &lisObs{Closed: []bool{}}
	var cl lisCleanup
	cl.f = func() {}
	persist, err := persistenceMem.Load(nil, nil)
	if err != nil {
		return obs, nil, cl, err.Error()
	}
	authRegMu.Lock()
	name := fmt.Sprintf("verif-auth-%d", nextAuthSeq())
	if err := auth.Register(name, &progAuth{}); err != nil {
		authRegMu.Unlock()
		return obs, nil, cl, err.Error()
	}
	am, err := auth.NewManager([]string{name})
	authRegMu.Unlock()
	if err != nil {
		return obs, nil, cl, err.Error()
	}
	cl.am = am
	cl.f = func() {
		authRegMu.Lock()
		auth.UnRegister(name)
		authRegMu.Unlock()
	}
	var mc configuration.MqttConfig
	mc.Version = []string{"v3.1", "v3.1.1", "v5.0"}
	mc.Options.ConnectTimeout = ct
	mc.Options.ReceiveMax = 65535
	mc.Options.MaxPacketSize = 268435455
	mc.Options.MaxQoS = mqttp.QoS2
	mc.Options.RetainAvailable = true
	mc.Options.SubsWildcard = true
	srv, err := server.NewServer(server.Config{
		MQTT:            mc,
		Acceptor:        configuration.AcceptorConfig{MaxIncoming: 64, PreSpawn: 2},
		Persistence:     persist,
		OnDuplicate:     func(string, bool) {},
		TransportStatus: func(string, string) {},
		Health:          noHealth{},
		Metrics:         metrics.New(),
	})
	if err != nil {
		return obs, nil, cl, "NewServer: " + err.Error()
	}
	return obs, srv, cl, ""
}

func runListener(c *lisCase) (*lisObs, string) {
	obs, srv, cleanup, msg := newLisServer()
	if msg != "" {
		return obs, msg
	}
	defer cleanup.f()
	am := cleanup.am
	tcpPort, wsPort := freePort(), freePort()
	if err := srv.ListenAndServe(transport.NewConfigTCP(&transport.Config{AuthManager: am, Host: "127.0.0.1", Port: tcpPort})); err != nil {
		return obs, "tcp listener: " + err.Error()
	}
	if err := srv.ListenAndServe(transport.NewConfigWS(&transport.Config{AuthManager: am, Host: "127.0.0.1", Port: wsPort})); err != nil {
		return obs, "ws listener: " + err.Error()
	}
	dial := func(kind int) (*lisConn, error) {
		deadline := time.Now().Add(3 * time.Second)
		for {
			var cn net.Conn
			var err error
			if kind >= 2 {
				d := gws.Dialer{Protocols: []string{"mqtt"}, Timeout: 2 * time.Second}
				cn, _, _, err = d.Dial(context.Background(), "ws://127.0.0.1:"+wsPort+"/")
			} else {
				cn, err = net.DialTimeout("tcp", "127.0.0.1:"+tcpPort, 2*time.Second)
			}
			if err == nil {
				return &lisConn{kind: kind, c: cn}, nil
			}
			if time.Now().After(deadline) {
				return nil, err
			}
			time.Sleep(20 * time.Millisecond)
		}
	}
	connectPkt := func(id string) []byte {
		p := mqttp.NewConnect(mqttp.ProtocolV311)
		p.SetClean(true)
		_ = p.SetClientID([]byte(id))
		b, _ := mqttp.Encode(p)
		return b
	}
	var conns []*lisConn
	for i, k := range c.Conns {
		lc, err := dial(k)
		if err != nil {
			return obs, fmt.Sprintf("dial %d: %v", i, err)
		}
		conns = append(conns, lc)
		if k == 0 || k == 2 {
			if err := lc.send(connectPkt(fmt.Sprintf("l%d", i))); err != nil {
				return obs, "send CONNECT: " + err.Error()
			}
			b, err := lc.recv(3 * time.Second)
			if err != nil || len(b) < 4 || b[0]>>4 != 2 || b[3] != 0 {
				return obs, fmt.Sprintf("conn %d: no CONNACK (%v %x)", i, err, b)
			}
		}
	}
	time.Sleep(30 * time.Millisecond)
	done := make(chan struct{})
	go func() { _ = srv.Shutdown(); close(done) }()
	select {
	case <-done:
		obs.Returned = true
	case <-time.After(10 * time.Second):
	}
	// a connection that was still in its handshake must not be served after Shutdown has returned
	for i, lc := range conns {
		if lc.kind == 1 || lc.kind == 3 {
			if lc.send(connectPkt(fmt.Sprintf("late%d", i))) == nil {
				if b, err := lc.recv(500 * time.Millisecond); err == nil && len(b) >= 4 && b[0]>>4 == 2 {
					obs.LateConnack = true
				}
			}
		}
	}
	for _, lc := range conns {
		closed := false
		for k := 0; k < 8 && !closed; k++ {
			if _, err := lc.recv(250 * time.Millisecond); err != nil {
				if ne, ok := err.(net.Error); ok && ne.Timeout() {
					continue
				}
				closed = true
			}
		}
		obs.Closed = append(obs.Closed, closed)
		_ = lc.c.Close()
	}
	for _, port := range []string{tcpPort, wsPort} {
		if cn, err := net.DialTimeout("tcp", "127.0.0.1:"+port, 300*time.Millisecond); err == nil {
			obs.AcceptsAfter = true
			_ = cn.Close()
		}
	}
	if !obs.Returned {
		return obs, "Shutdown did not return within 10 s"
	}
	return obs, ""
}

var _ = vlauth.StatusAllow

// ---- Stop while a session's connection end is in progress ----

type cloObs struct {
	Early    bool `json:"early"`    // Stop returned while the hand-over to persistence was still held
	Returned bool `json:"returned"` // Stop returned after the hand-over was let go
	UnAck    int  `json:"unack"`    // unacknowledged messages of the session in persistence afterwards
}

func runStopDuringClose() (*cloObs, string) {
	obs := &cloObs{}
	mp, err := persistenceMem.Load(nil, nil)
	if err != nil {
		return obs, err.Error()
	}
	gate := newPersistGate(mp)
	defer gate.Release()
	b, err := NewBroker(BrokerOpts{Persist: gate})
	if err != nil {
		return obs, err.Error()
	}
	defer b.Drop()
	cl := b.Dial()
	if _, err := cl.Connect(ConnectOpts{ID: "cz", Ver: mqttp.ProtocolV311, Clean: false}); err != nil {
		return obs, "connect: " + err.Error()
	}
	a := cl.Auto(true) // acknowledges nothing by itself
	_ = a.SendL(mkSubscribe(mqttp.ProtocolV311, 1, []string{"t"}, []byte{1}))
	if !a.WaitFor(5*time.Second, func() bool { return len(a.Others) >= 1 }) {
		return obs, "no suback"
	}
	pc := b.Dial()
	if _, err := pc.Connect(ConnectOpts{ID: "cp", Ver: mqttp.ProtocolV311, Clean: true}); err != nil {
		return obs, "publisher: " + err.Error()
	}
	pa := pc.Auto(false)
	_ = pa.SendL(mkPublish(mqttp.ProtocolV311, "t", []byte{7}, 1, false, 1))
	if !a.WaitFor(5*time.Second, func() bool { return len(a.Pubs) >= 1 }) {
		return obs, "the message did not arrive"
	}
	gate.ArmBulk("cz")
	a.Close()
	if !gate.WaitEntered(5 * time.Second) {
		return obs, "the connection end did not reach the hand-over to persistence"
	}
	atomic.StoreInt32(&b.mgrDown, 1)
	done := make(chan struct{})
	go func() { _ = b.Mgr.Stop(); _ = b.Mgr.Shutdown(); close(done) }()
	select {
	case <-done:
		obs.Early = true
	case <-time.After(400 * time.Millisecond):
	}
	gate.Release()
	select {
	case <-done:
		obs.Returned = true
	case <-time.After(8 * time.Second):
		return obs, "Stop did not return"
	}
	time.Sleep(50 * time.Millisecond)
	if ss, err := mp.Sessions(); err == nil {
		n, _ := ss.PacketCountUnAck([]byte("cz"))
		obs.UnAck = int(n)
	}
	return obs, ""
}

// ---- a client that has stopped reading: the broker's writer is blocked in its Write ----
// kind 0: another connection takes the client id over (C10: the CONNECT must be answered)
// kind 1: the broker is stopped (C20: Stop must return)
// kind 2: the client is silent beyond its keep-alive (C19/C11: the connection must end, the Will be published)
// kinds 5-7: a Will with RETAIN=1 (C11 "with its declared ... retain flag"): it is published live AND stored as the
//         retained message of its topic - a later subscriber is sent it. 5: published when the connection ends,
//         6: by the Will Delay timer, 7: at start-up (the delay elapsed while the broker was down)
// kind 8: a v5 DISCONNECT that is a protocol error (a non-zero Session Expiry Interval after a CONNECT with 0): the
//         connection ends by protocol error, not by a normal DISCONNECT - the Will is published (C11)
// kind 9: a BUSY client (keep-alive 8 s, 200 PINGREQs per millisecond) is taken over while its reader is in the middle
//         of that traffic, and falls silent afterwards without closing: the new CONNECT is answered at once, not when
//         the old connection's keep-alive runs out (C10 "within bounded time"); ten rounds, every one must be fast
// kind 10: the broker is shut down while a publisher's QoS 1 messages for a durable session that is away are still in
//          the routing queue: after the restart the session is sent every message that was acknowledged to the
//          publisher (C20 "undelivered messages of durable sessions are handed to persistence before shutdown returns")
// kind 11: like kind 0, but the stalled client has sent DISCONNECT first: the broker's own handling of that DISCONNECT
//          stops the writer too, and must not wait for the stalled peer either (C10)
// kind 12: the stalled client has sent DISCONNECT, then the broker is stopped: Stop returns AND the connection is closed
//          (C20 "every open connection is closed"), seen by the client, which still reads nothing, in its own writes
// kind 3: not stalled but SLOW: a v5 client that keeps reading (64 bytes per millisecond) while 19 KB are on their way
//         to it is taken over (C10: the new CONNECT is answered; the old connection gets "DISCONNECT 'session taken
//         over'" - as a packet: everything it is sent decodes, and that DISCONNECT is the last thing before the end)

type stallObs struct {
	OK     bool `json:"ok"`     // CONNACK for the new connection / Stop returned / Will seen
	Closed bool `json:"closed"` // the stalled connection was closed by the broker
}

func runStalled(kind int) (*stallObs, string) {
	if kind == 3 {
		return runSlowTakeover()
	}
	if kind >= 5 && kind <= 7 {
		return runWillRetained(kind - 5)
	}
	if kind == 8 {
		return runWillAfterInvalidDisconnect(0)
	}
	if kind == 19 || kind == 20 {
		return runWillRetained(kind - 16)
	}
	if kind == 21 {
		// a retained Will with a Will Delay Interval, published by the delay timer, then the broker is restarted: it is a
		// retained message like any other (C16)
		return runWillRetained(5)
	}
	if kind == 17 || kind == 18 {
		return runWillAfterInvalidDisconnect(kind - 16)
	}
	if kind == 9 {
		return runBusyTakeover()
	}
	if kind == 10 {
		return runShutdownUnderTraffic()
	}
	if kind == 15 {
		return runAcceptRace()
	}
	if kind == 16 {
		return runExpiryDuringStop()
	}
	ver := mqttp.ProtocolV311
	if kind == 13 || kind == 14 { // 11/12 with an MQTT 5 client: the broker also has a DISCONNECT to write to it
		ver = mqttp.ProtocolV50
		kind -= 2
	}
	obs := &stallObs{}
	b, err := NewBroker(BrokerOpts{Preempt: true})
	if err != nil {
		return obs, err.Error()
	}
	defer b.Drop()
	wc := b.Dial()
	if _, err := wc.Connect(ConnectOpts{ID: "watcher", Ver: mqttp.ProtocolV311, Clean: true}); err != nil {
		return obs, "watcher: " + err.Error()
	}
	w := wc.Auto(false)
	_ = w.SendL(mkSubscribe(mqttp.ProtocolV311, 1, []string{"will/#"}, []byte{0}))
	if !w.WaitFor(5*time.Second, func() bool { return len(w.Others) >= 1 }) {
		return obs, "watcher: no suback"
	}
	will := mqttp.NewPublish(ver)
	_ = will.Set("will/st", []byte{1}, 0, false, false)
	c := b.DialCap(64)
	ka := 0
	if kind == 2 {
		ka = 1
	}
	if _, err := c.Connect(ConnectOpts{ID: "st", Ver: ver, Clean: true, KeepAlive: uint16(ka), Will: will}); err != nil {
		return obs, "connect: " + err.Error()
	}
	_ = c.Send(mkSubscribe(ver, 9, []string{"t"}, []byte{0}))
	if pk, err := c.Recv(5 * time.Second); err != nil || pk.Type() != mqttp.SUBACK {
		return obs, "no suback"
	}
	// from here on the client neither reads nor writes; traffic for it fills the pipe and blocks the broker's writer
	pc := b.Dial()
	if _, err := pc.Connect(ConnectOpts{ID: "sp", Ver: mqttp.ProtocolV311, Clean: true}); err != nil {
		return obs, "publisher: " + err.Error()
	}
	pa := pc.Auto(false)
	for i := 0; i < 50; i++ {
		_ = pa.SendL(mkPublish(mqttp.ProtocolV311, "t", make([]byte, 100), 0, false, 0))
	}
	time.Sleep(200 * time.Millisecond)
	if kind == 11 || kind == 12 {
		// the stalled client says DISCONNECT (its sending direction is free) and goes on neither reading nor closing
		_ = c.Send(mqttp.NewDisconnect(ver))
		time.Sleep(100 * time.Millisecond)
	}
	switch kind {
	case 0, 11:
		c2 := b.Dial()
		_, err := c2.Connect(ConnectOpts{ID: "st", Ver: ver, Clean: true})
		obs.OK = err == nil
	case 1, 12:
		atomic.StoreInt32(&b.mgrDown, 1)
		done := make(chan struct{})
		go func() { _ = b.Mgr.Stop(); _ = b.Mgr.Shutdown(); close(done) }()
		select {
		case <-done:
			obs.OK = true
		case <-time.After(8 * time.Second):
		}
	default:
		obs.OK = w.WaitFor(5*time.Second, func() bool { return len(w.Pubs) >= 1 })
	}
	if kind == 12 {
		// the client still does not read: whether the broker has closed its end shows in the client's own writes
		dl := time.Now().Add(3 * time.Second)
		for time.Now().Before(dl) && !obs.Closed {
			if err := c.SendRaw([]byte{0xC0, 0x00}); err != nil {
				obs.Closed = true
			}
			time.Sleep(20 * time.Millisecond)
		}
		return obs, ""
	}
	// what the broker had written before it was blocked is still in the pipe: drain it, then the end must follow
	dl := time.Now().Add(3 * time.Second)
	for time.Now().Before(dl) {
		if _, err := c.Recv(500 * time.Millisecond); err != nil {
			if ne, ok := err.(net.Error); ok && ne.Timeout() {
				continue
			}
			obs.Closed = true
			break
		}
	}
	return obs, ""
}

// runExpiryDuringStop: many MQTT 5 sessions (expiry interval 1 s, three subscriptions each) have ended their connections
// together; the broker is stopped at the moment their expiry timers fire: Stop returns (C20), whichever of the two - the
// timer or Stop - gets to a session first
func runExpiryDuringStop() (obs *stallObs, msg string) {
	obs = &stallObs{OK: true, Closed: true}
	for round := 0; round < 5; round++ {
		b, err := NewBroker(BrokerOpts{})
		if err != nil {
			return obs, err.Error()
		}
		one := uint32(1)
		var cls []*Client
		for i := 0; i < 300; i++ {
			cl := b.Dial()
			if _, err := cl.Connect(ConnectOpts{ID: fmt.Sprintf("e%d", i), Ver: mqttp.ProtocolV50, Clean: true, Expiry: &one}); err != nil {
				return obs, "connect: " + err.Error()
			}
			_ = cl.Send(mkSubscribe(mqttp.ProtocolV50, 1, []string{fmt.Sprintf("a/%d", i), fmt.Sprintf("b/%d/#", i), "c/+"}, []byte{0, 1, 2}))
			if pk, err := cl.Recv(5 * time.Second); err != nil || pk.Type() != mqttp.SUBACK {
				return obs, "no suback"
			}
			cls = append(cls, cl)
		}
		t0 := time.Now()
		for _, cl := range cls {
			cl.Close()
		}
		time.Sleep(time.Until(t0.Add(time.Second + time.Duration(round*6)*time.Millisecond)))
		atomic.StoreInt32(&b.mgrDown, 1)
		done := make(chan string, 1)
		go func() {
			defer func() {
				if r := recover(); r != nil {
					done <- fmt.Sprint("Stop panicked: ", r)
				}
			}()
			_ = b.Mgr.Stop()
			_ = b.Mgr.Shutdown()
			done <- ""
		}()
		select {
		case m := <-done:
			if m != "" {
				obs.OK = false
				return obs, m
			}
		case <-time.After(10 * time.Second):
			obs.OK = false
			return obs, "Stop did not return"
		}
		b.ShutdownTopics()
		b.Drop2()
	}
	return obs, ""
}

// stopRace: many clean sessions end their connections at the moment Manager.Stop walks the session map
func stopRace(clients int) string {
	b, err := NewBroker(BrokerOpts{})
	if err != nil {
		return err.Error()
	}
	var cls []*Client
	for i := 0; i < clients; i++ {
		cl := b.Dial()
		if _, err := cl.Connect(ConnectOpts{ID: fmt.Sprintf("c%d", i), Ver: mqttp.ProtocolV311, Clean: true}); err != nil {
			return err.Error()
		}
		cls = append(cls, cl)
	}
	start := make(chan struct{})
	var wg sync.WaitGroup
	for _, cl := range cls {
		wg.Add(1)
		go func(cl *Client) { defer wg.Done(); <-start; cl.Close() }(cl)
	}
	done := make(chan struct{})
	go func() {
		<-start
		atomic.StoreInt32(&b.mgrDown, 1)
		_ = b.Mgr.Stop()
		_ = b.Mgr.Shutdown()
		close(done)
	}()
	close(start)
	wg.Wait()
	select {
	case <-done:
	case <-time.After(10 * time.Second):
		return "Stop did not return"
	}
	b.ShutdownTopics()
	b.Drop2()
	return ""
}

func runSlowTakeover() (*stallObs, string) {
	obs := &stallObs{}
	b, err := NewBroker(BrokerOpts{Preempt: true})
	if err != nil {
		return obs, err.Error()
	}
	defer b.Drop()
	c := b.DialCap(64)
	if _, err := c.Connect(ConnectOpts{ID: "slow", Ver: mqttp.ProtocolV50, Clean: true}); err != nil {
		return obs, "connect: " + err.Error()
	}
	a := c.Auto(false)
	_ = a.SendL(mkSubscribe(mqttp.ProtocolV50, 9, []string{"t"}, []byte{0}))
	if !a.WaitFor(5*time.Second, func() bool { return len(a.Others) >= 1 }) {
		return obs, "no suback"
	}
	c.conn.(*bufConn).SetReadPause(time.Millisecond)
	pc := b.Dial()
	if _, err := pc.Connect(ConnectOpts{ID: "sp", Ver: mqttp.ProtocolV311, Clean: true}); err != nil {
		return obs, "publisher: " + err.Error()
	}
	pa := pc.Auto(false)
	payload := make([]byte, 100)
	for i := range payload {
		payload[i] = 'x'
	}
	for i := 0; i < 180; i++ {
		_ = pa.SendL(mkPublish(mqttp.ProtocolV311, "t", payload, 0, false, 0))
	}
	// the take-over arrives while the old connection's writer is in the middle of that backlog
	if !a.WaitFor(5*time.Second, func() bool { return len(a.Pubs) >= 5 }) {
		return obs, "nothing delivered"
	}
	c2 := b.Dial()
	_, err = c2.Connect(ConnectOpts{ID: "slow", Ver: mqttp.ProtocolV50, Clean: true})
	connack := err == nil
	// the old connection: read to its end
	if !a.WaitFor(8*time.Second, func() bool { return a.closed }) {
		return obs, "old connection not closed"
	}
	obs.Closed = true
	a.mu.Lock()
	defer a.mu.Unlock()
	last := mqttp.IFace(nil)
	if len(a.Seq) > 0 {
		last = a.Seq[len(a.Seq)-1]
	}
	told := false
	if d, ok := last.(*mqttp.Disconnect); ok && d.ReasonCode() == mqttp.CodeSessionTakenOver {
		told = true
	}
	clean := a.EndErr == "" && len(a.Client.buf) == 0
	for _, m := range a.Pubs {
		if len(m.Payload()) != 100 {
			clean = false
		}
	}
	obs.OK = connack && told && clean
	if !obs.OK {
		return obs, fmt.Sprintf("connack=%v told=%v clean=%v enderr=%q dangling=%d packets=%d", connack, told, clean, a.EndErr, len(a.Client.buf), len(a.Seq))
	}
	return obs, ""
}

func runWillRetained(path int) (*stallObs, string) {
	obs := &stallObs{Closed: true}
	b, err := NewBroker(BrokerOpts{Preempt: true})
	if err != nil {
		return obs, err.Error()
	}
	watch := func(b *Broker) (*Auto, string) {
		wc := b.Dial()
		if _, err := wc.Connect(ConnectOpts{ID: "watcher", Ver: mqttp.ProtocolV311, Clean: true}); err != nil {
			return nil, "watcher: " + err.Error()
		}
		w := wc.Auto(false)
		_ = w.SendL(mkSubscribe(mqttp.ProtocolV311, 1, []string{"will/#"}, []byte{1}))
		if !w.WaitFor(5*time.Second, func() bool { return len(w.Others) >= 1 }) {
			return nil, "watcher: no suback"
		}
		return w, ""
	}
	w, msg := watch(b)
	if msg != "" {
		b.Drop()
		return obs, msg
	}
	ver := mqttp.ProtocolV311
	if path > 0 && path != 3 {
		ver = mqttp.ProtocolV50
	}
	will := mqttp.NewPublish(ver)
	_ = will.Set("will/r", []byte{7}, 1, true, false)
	o := ConnectOpts{ID: "wr", Ver: ver, Clean: true, Will: will}
	if path == 1 || path == 2 || path == 5 {
		_ = will.PropertySet(mqttp.PropertyWillDelayInterval, uint32(1))
		exp := uint32(30)
		o.Expiry = &exp
	}
	c := b.Dial()
	if _, err := c.Connect(o); err != nil {
		b.Drop()
		return obs, "connect: " + err.Error()
	}
	before := b.Met.Disconnected()
	c.Close()
	deadline := time.Now().Add(5 * time.Second)
	for b.Met.Disconnected() == before && time.Now().Before(deadline) {
		time.Sleep(time.Millisecond)
	}
	if path == 2 {
		// the broker goes down before the delay has elapsed and comes back after it
		pers := b.Persist
		atomic.StoreInt32(&b.mgrDown, 1)
		stopped := make(chan struct{})
		go func() { _ = b.Mgr.Stop(); _ = b.Mgr.Shutdown(); b.ShutdownTopics(); close(stopped) }()
		select {
		case <-stopped:
		case <-time.After(10 * time.Second):
			return obs, "shutdown did not return"
		}
		b.Drop2()
		time.Sleep(1500 * time.Millisecond)
		if b, err = NewBroker(BrokerOpts{Preempt: true, Persist: pers}); err != nil {
			return obs, "restart: " + err.Error()
		}
	} else if !w.WaitFor(5*time.Second, func() bool { return len(w.Pubs) >= 1 }) {
		b.Drop()
		return obs, "the will was not published"
	}
	// a subscriber that arrives afterwards
	deadline = time.Now().Add(3 * time.Second)
	for time.Now().Before(deadline) {
		if r, _ := b.Topics.Retained("will/r"); len(r) == 1 {
			break
		}
		time.Sleep(5 * time.Millisecond)
	}
	if path >= 3 {
		// ... after the broker has been restarted: the published Will is a retained message with QoS 1 like any other (C16)
		pers := b.Persist
		atomic.StoreInt32(&b.mgrDown, 1)
		stopped := make(chan struct{})
		go func() { _ = b.Mgr.Stop(); _ = b.Mgr.Shutdown(); b.ShutdownTopics(); close(stopped) }()
		select {
		case <-stopped:
		case <-time.After(10 * time.Second):
			return obs, "shutdown did not return"
		}
		b.Drop2()
		if b, err = NewBroker(BrokerOpts{Preempt: true, Persist: pers}); err != nil {
			return obs, "restart: " + err.Error()
		}
		time.Sleep(100 * time.Millisecond)
	}
	defer b.Drop()
	lc := b.Dial()
	if _, err := lc.Connect(ConnectOpts{ID: "late", Ver: mqttp.ProtocolV311, Clean: true}); err != nil {
		return obs, "late subscriber: " + err.Error()
	}
	la := lc.Auto(false)
	_ = la.SendL(mkSubscribe(mqttp.ProtocolV311, 1, []string{"will/r"}, []byte{1}))
	got := la.WaitFor(2*time.Second, func() bool { return len(la.Pubs) >= 1 })
	if got {
		la.mu.Lock()
		m := la.Pubs[0]
		obs.OK = m.Retain() && len(m.Payload()) == 1 && m.Payload()[0] == 7
		la.mu.Unlock()
	}
	if !obs.OK {
		return obs, "a subscriber that came after the will was published was not sent it as retained message"
	}
	return obs, ""
}

func runWillAfterInvalidDisconnect(variant int) (*stallObs, string) {
	obs := &stallObs{}
	b, err := NewBroker(BrokerOpts{Preempt: true})
	if err != nil {
		return obs, err.Error()
	}
	defer b.Drop()
	wc := b.Dial()
	if _, err := wc.Connect(ConnectOpts{ID: "watcher", Ver: mqttp.ProtocolV311, Clean: true}); err != nil {
		return obs, "watcher: " + err.Error()
	}
	w := wc.Auto(false)
	_ = w.SendL(mkSubscribe(mqttp.ProtocolV311, 1, []string{"will/#"}, []byte{0}))
	if !w.WaitFor(5*time.Second, func() bool { return len(w.Others) >= 1 }) {
		return obs, "watcher: no suback"
	}
	will := mqttp.NewPublish(mqttp.ProtocolV50)
	_ = will.Set("will/pe", []byte{9}, 0, false, false)
	zero := uint32(0)
	c := b.Dial()
	exp := &zero
	if variant == 2 {
		exp = nil // no Session Expiry Interval in CONNECT means 0 as well
	}
	if _, err := c.Connect(ConnectOpts{ID: "pe", Ver: mqttp.ProtocolV50, Clean: true, Expiry: exp, Will: will}); err != nil {
		return obs, "connect: " + err.Error()
	}
	a := c.Auto(false)
	d := mqttp.NewDisconnect(mqttp.ProtocolV50)
	if variant == 1 {
		// a valid DISCONNECT, but not a NORMAL one: only reason 0x00 discards the Will (MQTT 5, 3.1.2.5)
		d.SetReasonCode(mqttp.CodeUnspecifiedError)
	} else {
		_ = d.PropertySet(mqttp.PropertySessionExpiryInterval, uint32(5))
	}
	_ = a.SendL(d)
	obs.Closed = a.WaitFor(5*time.Second, func() bool { return a.closed })
	obs.OK = w.WaitFor(3*time.Second, func() bool { return len(w.Pubs) >= 1 })
	if !obs.OK {
		return obs, "the connection was ended by something else than a normal DISCONNECT (a protocol error in it, a reason code other than 0x00) and no Will was published"
	}
	return obs, ""
}

func runBusyTakeover() (*stallObs, string) {
	obs := &stallObs{OK: true, Closed: true}
	ping, _ := mqttp.Encode(mqttp.NewPingReq(mqttp.ProtocolV311))
	burst := make([]byte, 0, 400)
	for i := 0; i < 200; i++ {
		burst = append(burst, ping...)
	}
	for round := 0; round < 10; round++ {
		b, err := NewBroker(BrokerOpts{Preempt: true})
		if err != nil {
			return obs, err.Error()
		}
		c := b.Dial()
		if _, err := c.Connect(ConnectOpts{ID: "busy", Ver: mqttp.ProtocolV311, Clean: true, KeepAlive: 8}); err != nil {
			b.Drop()
			return obs, "connect: " + err.Error()
		}
		stop := make(chan struct{})
		go func() { // the PINGRESPs are read away: the broker's writer is never blocked
			for {
				if _, err := c.Recv(100 * time.Millisecond); err != nil && err != errTimeout {
					return
				}
			}
		}()
		go func() {
			for {
				select {
				case <-stop:
					return
				default:
					_ = c.SendRaw(burst)
					time.Sleep(time.Millisecond)
				}
			}
		}()
		time.Sleep(20 * time.Millisecond)
		c2 := b.Dial()
		t0 := time.Now()
		answered := make(chan time.Duration, 1)
		go func() {
			if _, err := c2.Connect(ConnectOpts{ID: "busy", Ver: mqttp.ProtocolV311, Clean: true}); err == nil {
				answered <- time.Since(t0)
			}
		}()
		time.Sleep(30 * time.Millisecond)
		close(stop) // the old client falls silent; it does not close its connection
		var took time.Duration
		select {
		case took = <-answered:
		case <-time.After(3 * time.Second):
			took = -1
		}
		b.Drop()
		if took < 0 {
			obs.OK = false
			return obs, fmt.Sprintf("round %d: the CONNECT that takes the busy client's session over was not answered within 3 s", round)
		}
	}
	return obs, ""
}

func runShutdownUnderTraffic() (*stallObs, string) {
	// how much is still in the routing queue when the shutdown starts is a matter of scheduling: three rounds
	for round := 0; round < 3; round++ {
		if obs, msg := shutdownUnderTrafficOnce(); msg != "" || !obs.OK {
			return obs, msg
		}
	}
	return &stallObs{OK: true, Closed: true}, ""
}

func shutdownUnderTrafficOnce() (*stallObs, string) {
	obs := &stallObs{Closed: true}
	b, err := NewBroker(BrokerOpts{})
	if err != nil {
		return obs, err.Error()
	}
	pers := b.Persist
	sc := b.Dial()
	if _, err := sc.Connect(ConnectOpts{ID: "dur", Ver: mqttp.ProtocolV311, Clean: false}); err != nil {
		b.Drop()
		return obs, "connect: " + err.Error()
	}
	sa := sc.Auto(false)
	_ = sa.SendL(mkSubscribe(mqttp.ProtocolV311, 1, []string{"q/#"}, []byte{1}))
	if !sa.WaitFor(5*time.Second, func() bool { return len(sa.Others) >= 1 }) {
		b.Drop()
		return obs, "no suback"
	}
	before := b.Met.Disconnected()
	sc.Close()
	deadline := time.Now().Add(5 * time.Second)
	for b.Met.Disconnected() == before && time.Now().Before(deadline) {
		time.Sleep(time.Millisecond)
	}
	pc := b.Dial()
	if _, err := pc.Connect(ConnectOpts{ID: "P", Ver: mqttp.ProtocolV311, Clean: true}); err != nil {
		b.Drop()
		return obs, "publisher: " + err.Error()
	}
	pa := pc.Auto(false)
	const n = 3000
	for i := 0; i < n; i++ {
		_ = pa.SendL(mkPublish(mqttp.ProtocolV311, "q/x", []byte{byte(i >> 8), byte(i)}, 1, false, uint16(1+i)))
	}
	// as soon as half of them have been acknowledged the broker goes down
	pa.WaitFor(5*time.Second, func() bool { return len(pa.Others) >= n/2 })
	atomic.StoreInt32(&b.mgrDown, 1)
	stopped := make(chan struct{})
	go func() { _ = b.Mgr.Stop(); _ = b.Mgr.Shutdown(); b.ShutdownTopics(); close(stopped) }()
	select {
	case <-stopped:
	case <-time.After(10 * time.Second):
		return obs, "shutdown did not return"
	}
	b.Drop2()
	acked := map[int]bool{}
	pa.mu.Lock()
	for _, o := range pa.Others {
		if a, ok := o.(*mqttp.Ack); ok && a.Type() == mqttp.PUBACK {
			id, _ := a.ID()
			acked[int(id)-1] = true
		}
	}
	pa.mu.Unlock()
	nb, err := NewBroker(BrokerOpts{Persist: pers})
	if err != nil {
		return obs, "restart: " + err.Error()
	}
	defer nb.Drop()
	rc := nb.Dial()
	if _, err := rc.Connect(ConnectOpts{ID: "dur", Ver: mqttp.ProtocolV311, Clean: false}); err != nil {
		return obs, "reconnect: " + err.Error()
	}
	ra := rc.Auto(false)
	got := map[int]bool{}
	have := func() int {
		for _, m := range ra.Pubs[len(got):] {
			_ = m
		}
		return len(ra.Pubs)
	}
	ra.WaitFor(10*time.Second, func() bool { return have() >= len(acked) })
	time.Sleep(100 * time.Millisecond)
	ra.mu.Lock()
	for _, m := range ra.Pubs {
		if len(m.Payload()) == 2 {
			got[int(m.Payload()[0])<<8|int(m.Payload()[1])] = true
		}
	}
	ra.mu.Unlock()
	missing := 0
	for i := range acked {
		if !got[i] {
			missing++
		}
	}
	obs.OK = missing == 0 && len(acked) > 0
	if !obs.OK {
		return obs, fmt.Sprintf("%d of the %d messages acknowledged to the publisher before the shutdown were not delivered after the restart", missing, len(acked))
	}
	return obs, ""
}
