#!/usr/bin/env python3
import json, sys, os
name, prop, needs, desc = sys.argv[1:5]
d = f"/verif/seeded/{name}"
out = open(f"{d}/check.out").read()
meta = {"property": prop, "breaks": desc, "needs_to_manifest": needs,
        "ran": ["sub-agent demo test with the change (FAIL) and without it (PASS), re-run by me in the scratch worktree",
                "repository test suite with the change (passes)",
                f"git -C /repo apply patch.diff; ./check {prop}; git -C /repo checkout -- ."],
        "check_result": "caught" if "VIOLATION" in out else "MISSED",
        "check_output_tail": out.strip().splitlines()[-4:]}
json.dump(meta, open(f"{d}/meta.json", "w"), indent=1)
print(meta["check_result"])
