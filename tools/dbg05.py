#!/usr/bin/env python3
import json, subprocess, sys, os
out, idx = sys.argv[1], int(sys.argv[2])
recs = json.load(open(os.path.join(out, "cases.json")))
src = open(os.path.join(out, "cases_%d.v" % (idx // 500))).read()
hdr = src[:src.index("Definition cases")]
body = src[src.index("[\n", src.index("Definition cases")) + 2:]
lines = [l for l in body.split("\n") if l.strip().startswith("(")]
term = lines[idx % 500].strip().rstrip(";")
v = hdr + "\nDefinition c := %s.\nSet Printing Width 250.\nEval vm_compute in (trace (init (pre c)) (steps c)).\n" % term
open("/tmp/dbg05.v", "w").write(v)
o = subprocess.run(["coqc", "-Q", "/verif/coq", "VMQ", "/tmp/dbg05.v"], capture_output=True, text=True).stdout
print(json.dumps(recs[idx]["case"]))
import re
model = re.findall(r"\[((?:\([^\]]*\))?(?:; \([^\]]*\))*)\]", o.replace("\n", " "))
for i, s in enumerate(recs[idx]["obs"]["steps"]):
    print(i, s["ev"], "OBS", s["obs"])
print("err:", recs[idx]["obs"].get("err"))
print(o)
