#!/usr/bin/env python3
"""dbgcase.py <outdir> <index> <chkmodule> : prints the case, the observation and the model trace"""
import json, re, subprocess, sys, os
out, idx, mod = sys.argv[1], int(sys.argv[2]), sys.argv[3]
recs = json.load(open(os.path.join(out, "cases.json")))
print(json.dumps(recs[idx]["case"]))
for s in recs[idx]["obs"].get("steps", []): print("  ", json.dumps(s))
print("err:", recs[idx]["obs"].get("err"))
src = open(os.path.join(out, "cases_%d.v" % (idx // 500))).read()
hdr = src[:src.index("Definition cases")]
body = src[src.index("[\n", src.index("Definition cases")) + 2:]
lines = [l for l in body.split("\n") if l.strip().startswith("(")]
term = lines[idx % 500].strip().rstrip(";")
v = hdr + "\nDefinition c := %s.\nSet Printing Width 200.\nEval vm_compute in (trace (init (rm0 c) (offline_q0 c)) (steps c)).\n" % term
open("/tmp/dbgcase.v", "w").write(v)
print(subprocess.run(["coqc", "-Q", "/verif/coq", "VMQ", "/tmp/dbgcase.v"], capture_output=True, text=True).stdout)
