module goextract

go 1.13
