// goextract: translator from facts that live in /repo's Go source as tables, constants and
// closed arithmetic expressions to coq/gen/Extracted.v.  Standard library only (go/parser, go/ast).
// A fact whose syntactic shape is not found is emitted as `<fact>_found := false` with a neutral
// value, so that the dependent theorem stops type-checking instead of the translator failing.
package main

import (
	"flag"
	"fmt"
	"go/ast"
	"go/parser"
	"go/token"
	"io/ioutil"
	"os"
	"path/filepath"
	"sort"
	"strconv"
	"strings"
)

var fset = token.NewFileSet()

func parse(path string) *ast.File {
	f, err := parser.ParseFile(fset, path, nil, 0)
	if err != nil {
		fmt.Fprintln(os.Stderr, "parse", path, err)
		return nil
	}
	return f
}

func intLit(e ast.Expr) (int64, bool) {
	switch v := e.(type) {
	case *ast.BasicLit:
		if v.Kind == token.INT {
			n, err := strconv.ParseInt(v.Value, 0, 64)
			return n, err == nil
		}
	case *ast.ParenExpr:
		return intLit(v.X)
	case *ast.BinaryExpr:
		a, ok1 := intLit(v.X)
		b, ok2 := intLit(v.Y)
		if ok1 && ok2 {
			switch v.Op {
			case token.MUL:
				return a * b, true
			case token.ADD:
				return a + b, true
			case token.SUB:
				return a - b, true
			case token.SHL:
				return a << uint(b), true
			}
		}
	}
	return 0, false
}

// constant NAME = <int expr> anywhere in the file
func findConst(f *ast.File, name string) (int64, bool) {
	var res int64
	found := false
	if f == nil {
		return 0, false
	}
	ast.Inspect(f, func(n ast.Node) bool {
		vs, ok := n.(*ast.ValueSpec)
		if !ok {
			return true
		}
		for i, id := range vs.Names {
			if id.Name == name && i < len(vs.Values) {
				if v, ok := intLit(vs.Values[i]); ok {
					res, found = v, true
				}
			}
		}
		return true
	})
	return res, found
}

// `name := <int>` inside function fn
func findLocalAssign(f *ast.File, fn, name string) (int64, bool) {
	var res int64
	found := false
	if f == nil {
		return 0, false
	}
	for _, d := range f.Decls {
		fd, ok := d.(*ast.FuncDecl)
		if !ok || fd.Name.Name != fn || fd.Body == nil {
			continue
		}
		count := 0
		ast.Inspect(fd.Body, func(n ast.Node) bool {
			as, ok := n.(*ast.AssignStmt)
			if !ok {
				return true
			}
			for i, l := range as.Lhs {
				if id, ok := l.(*ast.Ident); ok && id.Name == name && i < len(as.Rhs) {
					if v, ok := intLit(as.Rhs[i]); ok {
						res = v
						count++
					} else {
						count += 100 // assigned something that is not a literal
					}
				}
			}
			return true
		})
		// the goroutine must also be started in a `for i := 0; i < name; i++ { go ... }` loop
		found = count == 1
	}
	return res, found
}

// number of `go p.<method>()` statements outside loops + loops bounded by a named count
// (used as a cross-check that each worker kind is started in a loop over its count)
func workerLoopVar(f *ast.File, fn, method string) (string, bool) {
	if f == nil {
		return "", false
	}
	for _, d := range f.Decls {
		fd, ok := d.(*ast.FuncDecl)
		if !ok || fd.Name.Name != fn || fd.Body == nil {
			continue
		}
		var bound string
		n := 0
		var walk func(node ast.Node, loopBound string)
		walk = func(node ast.Node, loopBound string) {
			ast.Inspect(node, func(x ast.Node) bool {
				switch s := x.(type) {
				case *ast.ForStmt:
					b := "?"
					if be, ok := s.Cond.(*ast.BinaryExpr); ok && be.Op == token.LSS {
						if id, ok := be.Y.(*ast.Ident); ok {
							b = id.Name
						}
					}
					walk(s.Body, b)
					return false
				case *ast.GoStmt:
					if se, ok := s.Call.Fun.(*ast.SelectorExpr); ok && se.Sel.Name == method {
						n++
						bound = loopBound
					}
				}
				return true
			})
		}
		walk(fd.Body, "")
		if n == 1 {
			return bound, true
		}
	}
	return "", false
}

// keys of expectedPacketType: map[state]map[mqttp.Type]bool
func packetTable(f *ast.File) (map[string][]string, bool) {
	res := map[string][]string{}
	if f == nil {
		return res, false
	}
	found := false
	ast.Inspect(f, func(n ast.Node) bool {
		vs, ok := n.(*ast.ValueSpec)
		if !ok || len(vs.Names) != 1 || vs.Names[0].Name != "expectedPacketType" || len(vs.Values) != 1 {
			return true
		}
		cl, ok := vs.Values[0].(*ast.CompositeLit)
		if !ok {
			return true
		}
		found = true
		for _, el := range cl.Elts {
			kv, ok := el.(*ast.KeyValueExpr)
			if !ok {
				found = false
				continue
			}
			st, ok := kv.Key.(*ast.Ident)
			inner, ok2 := kv.Value.(*ast.CompositeLit)
			if !ok || !ok2 {
				found = false
				continue
			}
			var types []string
			for _, ie := range inner.Elts {
				ikv, ok := ie.(*ast.KeyValueExpr)
				if !ok {
					found = false
					continue
				}
				if se, ok := ikv.Key.(*ast.SelectorExpr); ok {
					// the Go lookup tests presence only (`_, ok := m[s][t]`), so a key with value
					// false is still admissible; keys are what is extracted.
					types = append(types, se.Sel.Name)
				} else {
					found = false
				}
			}
			res[st.Name] = types
		}
		return false
	})
	return res, found
}

// is the admissibility test `_, ok := expectedPacketType[..][..]` (presence) or a value test?
func tableLookupIsPresence(f *ast.File) bool {
	if f == nil {
		return false
	}
	presence := false
	ast.Inspect(f, func(n ast.Node) bool {
		as, ok := n.(*ast.AssignStmt)
		if !ok || len(as.Lhs) != 2 || len(as.Rhs) != 1 {
			return true
		}
		ix, ok := as.Rhs[0].(*ast.IndexExpr)
		if !ok {
			return true
		}
		ix2, ok := ix.X.(*ast.IndexExpr)
		if !ok {
			return true
		}
		if id, ok := ix2.X.(*ast.Ident); ok && id.Name == "expectedPacketType" {
			if b, ok := as.Lhs[0].(*ast.Ident); ok && b.Name == "_" {
				presence = true
			}
		}
		return true
	})
	return presence
}

// the argument of time.Duration(...) in func KeepAlive(val int), as a Coq Z expression over v
func keepAliveExpr(f *ast.File) (string, bool) {
	if f == nil {
		return "", false
	}
	var out string
	ok := false
	for _, d := range f.Decls {
		fd, isF := d.(*ast.FuncDecl)
		if !isF || fd.Name.Name != "KeepAlive" || fd.Body == nil {
			continue
		}
		param := ""
		if fd.Type.Params != nil && len(fd.Type.Params.List) == 1 && len(fd.Type.Params.List[0].Names) == 1 {
			param = fd.Type.Params.List[0].Names[0].Name
		}
		ast.Inspect(fd.Body, func(n ast.Node) bool {
			be, isB := n.(*ast.BinaryExpr)
			if !isB || be.Op != token.MUL {
				return true
			}
			// time.Duration(<expr>) * time.Second
			call, isC := be.X.(*ast.CallExpr)
			sec, isS := be.Y.(*ast.SelectorExpr)
			if !isC || !isS || sec.Sel.Name != "Second" || len(call.Args) != 1 {
				return true
			}
			if se, isSel := call.Fun.(*ast.SelectorExpr); !isSel || se.Sel.Name != "Duration" {
				return true
			}
			if s, good := arith(call.Args[0], param); good {
				out, ok = s, true
			}
			return false
		})
	}
	return out, ok
}

func arith(e ast.Expr, param string) (string, bool) {
	switch v := e.(type) {
	case *ast.ParenExpr:
		return arith(v.X, param)
	case *ast.Ident:
		if v.Name == param {
			return "v", true
		}
	case *ast.BasicLit:
		if v.Kind == token.INT {
			n, err := strconv.ParseInt(v.Value, 0, 64)
			if err == nil {
				return fmt.Sprintf("%d", n), true
			}
		}
	case *ast.BinaryExpr:
		a, ok1 := arith(v.X, param)
		b, ok2 := arith(v.Y, param)
		if ok1 && ok2 {
			switch v.Op {
			case token.ADD:
				return "(" + a + " + " + b + ")", true
			case token.SUB:
				return "(" + a + " - " + b + ")", true
			case token.MUL:
				return "(" + a + " * " + b + ")", true
			case token.QUO:
				return "(Z.quot " + a + " " + b + ")", true // Go integer division truncates toward zero
			}
		}
	}
	return "", false
}


// ---- structure lock discipline of topics/memlockfree/node.go ----
// A "writer" is a method that (directly) calls leafInsertNode or nodesCleanup, or stores into a node's maps /
// retained slot. It is "locked" iff, apart from declarations and assignments that touch neither the receiver
// nor a node, its first two statements are  <recv>.structure.Lock()  and  defer <recv>.structure.Unlock().
// leafInsertNode and nodesCleanup themselves are helpers: they must have no caller that is not locked.

func selChain(e ast.Expr) string {
	switch x := e.(type) {
	case *ast.Ident:
		return x.Name
	case *ast.SelectorExpr:
		return selChain(x.X) + "." + x.Sel.Name
	case *ast.CallExpr:
		return selChain(x.Fun) + "()"
	}
	return "?"
}

func writesStructure(n ast.Node) bool {
	found := false
	ast.Inspect(n, func(x ast.Node) bool {
		if c, ok := x.(*ast.CallExpr); ok {
			ch := selChain(c.Fun)
			for _, suf := range []string{".leafInsertNode", ".nodesCleanup", ".retained.Store", ".subs.LoadOrStore", ".subs.Delete", ".subs.Store", ".children.Delete", ".children.LoadOrStore", ".children.Store"} {
				if strings.HasSuffix(ch, suf) {
					found = true
				}
			}
		}
		return true
	})
	return found
}

func touchesState(n ast.Node, recv string) bool {
	found := false
	ast.Inspect(n, func(x ast.Node) bool {
		if c, ok := x.(*ast.CallExpr); ok {
			ch := selChain(c.Fun)
			if strings.HasPrefix(ch, recv+".") || strings.Contains(ch, ".subs.") || strings.Contains(ch, ".children.") || strings.Contains(ch, ".retained.") {
				found = true
			}
		}
		return true
	})
	return found
}

func lockDiscipline(f *ast.File) (map[string]bool, bool) {
	res := map[string]bool{}
	helpers := map[string]bool{"leafInsertNode": true, "nodesCleanup": true}
	ok := true
	for _, d := range f.Decls {
		fd, isFn := d.(*ast.FuncDecl)
		if !isFn || fd.Recv == nil || len(fd.Recv.List) != 1 || len(fd.Recv.List[0].Names) != 1 || fd.Body == nil {
			continue
		}
		if helpers[fd.Name.Name] || !writesStructure(fd.Body) {
			continue
		}
		// methods of the provider only (node.getRetained clears an EXPIRED message from the read path; it
		// never unlinks anything)
		if st, isStar := fd.Recv.List[0].Type.(*ast.StarExpr); !isStar || selChain(st.X) != "provider" {
			continue
		}
		recv := fd.Recv.List[0].Names[0].Name
		locked := false
		stmts := fd.Body.List
		for i, st := range stmts {
			if es, isE := st.(*ast.ExprStmt); isE && selChain(es.X) == recv+".structure.Lock()" {
				if i+1 < len(stmts) {
					if ds, isD := stmts[i+1].(*ast.DeferStmt); isD && selChain(ds.Call) == recv+".structure.Unlock()" {
						locked = true
					}
				}
				break
			}
			switch st.(type) {
			case *ast.AssignStmt, *ast.DeclStmt:
				if touchesState(st, recv) {
					goto done
				}
			default:
				goto done
			}
		}
	done:
		res[fd.Name.Name] = locked
	}
	for _, want := range []string{"subscriptionInsert", "subscriptionRemove", "retainInsert", "retainRemove"} {
		if _, have := res[want]; !have {
			ok = false
		}
	}
	return res, ok
}

// ---- the order of atomic accesses in the functions of the lock-free index (topics/memlockfree/node.go) ----
// In source order (arguments after the call they belong to), every call that touches shared state becomes a token:
//   atomic.AddInt32(&x.f, k) -> "add f k"   atomic.LoadInt32(&x.f) -> "load f"   atomic.StoreInt32(&x.f, k) -> "store f k"
//   x.children.M / x.subs.M / x.retained.M -> "children.M" ...   x.wgDeleted.M -> "wg.M"
//   recv.onCleanUnsubscribe -> "callback"   recv.<other method of the provider> / plain function of the file -> "call name"
// Locks and Hash() are left out (the mutex is the subject of lf_writers; Hash is the subscriber's own function).
func fieldOfAddr(e ast.Expr) string {
	if u, ok := e.(*ast.UnaryExpr); ok && u.Op == token.AND {
		if se, ok := u.X.(*ast.SelectorExpr); ok {
			return se.Sel.Name
		}
	}
	return "?"
}

func litStr(e ast.Expr) string {
	if v, ok := intLit(e); ok {
		return fmt.Sprintf("%d", v)
	}
	if u, ok := e.(*ast.UnaryExpr); ok && u.Op == token.SUB {
		if v, ok := intLit(u.X); ok {
			return fmt.Sprintf("-%d", v)
		}
	}
	return "?"
}

func accessShape(f *ast.File) map[string][]string {
	local := map[string]bool{}
	for _, d := range f.Decls {
		if fd, ok := d.(*ast.FuncDecl); ok {
			local[fd.Name.Name] = true
		}
	}
	res := map[string][]string{}
	for _, d := range f.Decls {
		fd, ok := d.(*ast.FuncDecl)
		if !ok || fd.Body == nil {
			continue
		}
		recv := ""
		if fd.Recv != nil && len(fd.Recv.List) == 1 && len(fd.Recv.List[0].Names) == 1 {
			recv = fd.Recv.List[0].Names[0].Name
		}
		var toks []string
		callTok := func(c *ast.CallExpr) string {
			ch := selChain(c.Fun)
			parts := strings.Split(ch, ".")
			last := parts[len(parts)-1]
			switch {
			case ch == "atomic.AddInt32" && len(c.Args) == 2:
				return "add " + fieldOfAddr(c.Args[0]) + " " + litStr(c.Args[1])
			case ch == "atomic.LoadInt32" && len(c.Args) == 1:
				return "load " + fieldOfAddr(c.Args[0])
			case ch == "atomic.StoreInt32" && len(c.Args) == 2:
				return "store " + fieldOfAddr(c.Args[0]) + " " + litStr(c.Args[1])
			case strings.HasPrefix(ch, "atomic."):
				return ch
			case len(parts) >= 2 && (parts[len(parts)-2] == "children" || parts[len(parts)-2] == "subs" || parts[len(parts)-2] == "retained"):
				return parts[len(parts)-2] + "." + last
			case len(parts) >= 2 && parts[len(parts)-2] == "wgDeleted":
				return "wg." + last
			case recv != "" && ch == recv+".onCleanUnsubscribe":
				return "callback"
			case recv != "" && len(parts) == 2 && parts[0] == recv:
				return "call " + last
			case len(parts) == 1 && local[last] && last != "newNode":
				return "call " + last
			}
			return ""
		}
		// a condition that reads shared state, with its operators: "(load subsCount == 0 && ...)"
		var condStr func(e ast.Expr) (string, bool)
		condStr = func(e ast.Expr) (string, bool) {
			switch x := e.(type) {
			case *ast.BinaryExpr:
				a, sa := condStr(x.X)
				b, sb := condStr(x.Y)
				return "(" + a + " " + x.Op.String() + " " + b + ")", sa || sb
			case *ast.UnaryExpr:
				a, sa := condStr(x.X)
				return x.Op.String() + a, sa
			case *ast.ParenExpr:
				return condStr(x.X)
			case *ast.CallExpr:
				if t := callTok(x); t != "" {
					return t, true
				}
				return selChain(x.Fun) + "()", false
			case *ast.TypeAssertExpr:
				return condStr(x.X)
			case *ast.SelectorExpr:
				a, sa := condStr(x.X)
				return a + "." + x.Sel.Name, sa
			case *ast.BasicLit:
				return x.Value, false
			case *ast.Ident:
				return x.Name, false
			}
			return "?", false
		}
		ast.Inspect(fd.Body, func(x ast.Node) bool {
			switch n := x.(type) {
			case *ast.IfStmt:
				if cs, shared := condStr(n.Cond); shared {
					toks = append(toks, "if "+cs)
				}
			case *ast.CallExpr:
				if t := callTok(n); t != "" {
					toks = append(toks, t)
				}
			}
			return true
		})
		res[fd.Name.Name] = toks
	}
	return res
}

// ---- the order of the steps of a session's hand-over between connections (model/Handoff.v) ----
// For a function: the calls whose selector chain ends in one of the given suffixes, in source order; "close x"
// for the builtin close and "recv x" for a channel receive are tokens as well.
func callOrder(f *ast.File, fn string, interesting []string) []string {
	var toks []string
	for _, d := range f.Decls {
		fd, ok := d.(*ast.FuncDecl)
		if !ok || fd.Body == nil || fd.Name.Name != fn {
			continue
		}
		ast.Inspect(fd.Body, func(x ast.Node) bool {
			switch n := x.(type) {
			case *ast.CallExpr:
				ch := selChain(n.Fun)
				if ch == "close" && len(n.Args) == 1 {
					ch = "close " + selChain(n.Args[0])
				}
				for _, suf := range interesting {
					if ch == suf || strings.HasSuffix(ch, suf) {
						toks = append(toks, suf)
						break
					}
				}
			case *ast.UnaryExpr:
				if n.Op == token.ARROW {
					t := "recv " + selChain(n.X)
					for _, suf := range interesting {
						if t == suf {
							toks = append(toks, suf)
						}
					}
				}
			}
			return true
		})
	}
	return toks
}

// guardsOf returns, for every call of callee in fn, the source text of the conditions of the if statements that
// enclose it (outermost first, joined by " && "); "" for an unguarded call.
func guardsOf(fset *token.FileSet, src []byte, f *ast.File, fn, callee string) []string {
	var out []string
	for _, d := range f.Decls {
		fd, ok := d.(*ast.FuncDecl)
		if !ok || fd.Body == nil || fd.Name.Name != fn {
			continue
		}
		var stack []string
		var walk func(n ast.Node)
		walk = func(n ast.Node) {
			if n == nil {
				return
			}
			switch x := n.(type) {
			case *ast.IfStmt:
				if x.Init != nil {
					walk(x.Init)
				}
				cond := string(src[fset.Position(x.Cond.Pos()).Offset:fset.Position(x.Cond.End()).Offset])
				stack = append(stack, cond)
				walk(x.Body)
				stack = stack[:len(stack)-1]
				if x.Else != nil {
					stack = append(stack, "!("+cond+")")
					walk(x.Else)
					stack = stack[:len(stack)-1]
				}
				return
			case *ast.CallExpr:
				if ch := selChain(x.Fun); ch == callee || strings.HasSuffix(ch, "."+callee) {
					out = append(out, strings.Join(stack, " && "))
				}
			}
			ast.Inspect(n, func(c ast.Node) bool {
				if c == n || c == nil {
					return true
				}
				walk(c)
				return false
			})
		}
		walk(fd.Body)
	}
	return out
}

func main() {
	repo := flag.String("repo", "/repo", "repository root")
	out := flag.String("out", "", "output .v file")
	flag.Parse()
	var sb strings.Builder
	w := func(format string, a ...interface{}) { fmt.Fprintf(&sb, format, a...) }
	w("(* GENERATED by /verif/tools/goextract from %s — do not edit. *)\n", *repo)
	w("From Coq Require Import List ZArith String.\nImport ListNotations.\nOpen Scope Z_scope.\n\n")

	// ---- worker counts of both topic tries
	for _, tr := range []struct{ pfx, file string }{{"lf", "topics/memlockfree/topics.go"}, {"mem", "topics/mem/topics.go"}} {
		f := parse(filepath.Join(*repo, tr.file))
		for _, k := range []struct{ name, v, method string }{
			{"publishers", "publisherCount", "publisher"},
			{"subscribers", "subsCount", "subscriber"},
			{"unsubscribers", "unSunCount", "unSubscriber"},
		} {
			val, ok := findLocalAssign(f, "NewMemProvider", k.v)
			lv, ok2 := workerLoopVar(f, "NewMemProvider", k.method)
			good := ok && ok2 && lv == k.v
			if !good {
				val = 0
			}
			w("Definition %s_%s : nat := %d.\nDefinition %s_%s_found : bool := %v.\n", tr.pfx, k.name, val, tr.pfx, k.name, good)
		}
	}
	w("\n")

	// ---- constants
	consts := []struct{ coq, file, name string }{
		{"min_queue_len", "types/queue.go", "minQueueLen"},
		{"max_packet_count", "connection/writer.go", "maxPacketCount"},
		{"max_packet_size", "connection/writer.go", "maxPacketSize"},
		{"default_receive_max", "types/types.go", "DefaultReceiveMax"},
		{"default_max_packet_size", "types/types.go", "DefaultMaxPacketSize"},
		{"chan_size", "topics/memlockfree/topics.go", "chanSize"},
	}
	for _, c := range consts {
		v, ok := findConst(parse(filepath.Join(*repo, c.file)), c.name)
		w("Definition %s : Z := %d.\nDefinition %s_found : bool := %v.\n", c.coq, v, c.coq, ok)
	}
	w("\n")

	// ---- keep-alive expression
	ke, ok := keepAliveExpr(parse(filepath.Join(*repo, "connection/options.go")))
	if !ok {
		ke = "0"
	}
	w("Definition keepalive_secs (v : Z) : Z := %s.\nDefinition keepalive_secs_found : bool := %v.\n\n", ke, ok)

	// ---- admissible packet types per connection state
	cf := parse(filepath.Join(*repo, "connection/connection.go"))
	tbl, ok := packetTable(cf)
	ok = ok && tableLookupIsPresence(cf)
	w("Open Scope string_scope.\n")
	w("Definition expected_packet_type : list (string * list string) := [\n")
	var states []string
	for s := range tbl {
		states = append(states, s)
	}
	sort.Strings(states)
	for i, s := range states {
		ts := append([]string{}, tbl[s]...)
		sort.Strings(ts)
		q := make([]string, len(ts))
		for j, t := range ts {
			q[j] = "\"" + t + "\""
		}
		sep := ";"
		if i == len(states)-1 {
			sep = ""
		}
		w("  (\"%s\", [%s])%s\n", s, strings.Join(q, "; "), sep)
	}
	w("].\nDefinition expected_packet_type_found : bool := %v.\n", ok)

	// ---- structure lock of the lock-free topic index
	ld, ldok := lockDiscipline(parse(filepath.Join(*repo, "topics/memlockfree/node.go")))
	var names []string
	for n := range ld {
		names = append(names, n)
	}
	sort.Strings(names)
	w("\nDefinition lf_writers : list (string * bool) := [")
	for i, n := range names {
		if i > 0 {
			w("; ")
		}
		w("(\"%s\", %v)", n, ld[n])
	}
	w("].\nDefinition lf_writers_found : bool := %v.\n", ldok)
	w("Definition lf_writers_locked : bool := lf_writers_found && forallb snd lf_writers.\n")

	// ---- order of atomic accesses in the protocol functions of the lock-free index
	sh := accessShape(parse(filepath.Join(*repo, "topics/memlockfree/node.go")))
	w("\nDefinition lf_shape : list (string * list string) := [\n")
	shNames := []string{"leafInsertNode", "leafSearchNode", "subscriptionInsert", "subscriptionRemove", "nodesCleanup", "subscriptionRecurseSearch", "subscriptionSearch"}
	for i, n := range shNames {
		q := make([]string, len(sh[n]))
		for j, t := range sh[n] {
			q[j] = "\"" + t + "\""
		}
		sep := ";"
		if i == len(shNames)-1 {
			sep = ""
		}
		w("  (\"%s\", [%s])%s\n", n, strings.Join(q, "; "), sep)
	}
	w("].\n")

	// ---- order of the hand-over steps between connections
	type co struct {
		file, fn string
		want     []string
	}
	w("\nDefinition handoff_shape : list (string * list string) := [\n")
	cos := []co{
		{"connection/connection.go", "Acknowledge", []string{".SignalOnline", ".tx.start", ".rx.run"}},
		{"connection/connection.go", "onConnectionCloseStage2", []string{".conn.SetWriteDeadline", ".rx.shutdown", ".SignalOffline", ".tx.stop", ".tx.getQueuedPackets", ".SignalConnectionClose"}},
		{"connection/writer.go", "send", []string{".wgStarted.Wait", ".sendQoS0", ".sendQoS12"}},
		{"clients/session.go", "SignalOffline", []string{".subscriber.Offline", ".subscriber.Online", "recv handedOver", "persist"}},
		{"clients/session.go", "SignalConnectionClose", []string{".persistence.PacketsStore", "close s.handedOver", ".subscriber.Offline", ".messenger.Publish", ".sessionOffline"}},
	}
	for i, c := range cos {
		ts := callOrder(parse(filepath.Join(*repo, c.file)), c.fn, c.want)
		q := make([]string, len(ts))
		for j, t := range ts {
			q[j] = "\"" + t + "\""
		}
		sep := ";"
		if i == len(cos)-1 {
			sep = ""
		}
		w("  (\"%s\", [%s])%s\n", c.fn, strings.Join(q, "; "), sep)
	}
	w("].\n")

	// ---- how a retained message is replaced: which conditions guard the removal in provider.retain
	for _, tr := range []struct{ pfx, file string }{{"lf", "topics/memlockfree/topics.go"}, {"mem", "topics/mem/topics.go"}} {
		path := filepath.Join(*repo, tr.file)
		src, _ := ioutil.ReadFile(path)
		fset := token.NewFileSet()
		f, err := parser.ParseFile(fset, path, src, 0)
		gs := []string{}
		if err == nil {
			gs = guardsOf(fset, src, f, "retain", "retainRemove")
		}
		q := make([]string, len(gs))
		for i, g := range gs {
			q[i] = "\"" + strings.ReplaceAll(strings.Join(strings.Fields(g), " "), "\"", "\"\"") + "\""
		}
		w("\nDefinition %s_retain_remove_guards : list string := [%s].\n", tr.pfx, strings.Join(q, "; "))
	}

	// ---- how the close sequence gets the reader out of its read
	w("\nDefinition reader_shape : list (string * list string) := [\n")
	ros := []co{
		{"connection/reader.go", "routine", []string{".conn.SetReadDeadline", "recv s.quit", ".readPacket", ".processIncoming"}},
		{"connection/connection.go", "onConnectionCloseStage2", []string{"close s.quit", ".conn.SetReadDeadline", ".rx.shutdown"}},
	}
	for i, c := range ros {
		ts := callOrder(parse(filepath.Join(*repo, c.file)), c.fn, c.want)
		q := make([]string, len(ts))
		for j, t := range ts {
			q[j] = "\"" + t + "\""
		}
		sep := ";"
		if i == len(ros)-1 {
			sep = ""
		}
		w("  (\"%s\", [%s])%s\n", c.fn, strings.Join(q, "; "), sep)
	}
	w("].\n")

	// ---- the two writers of a WebSocket connection take the write lock around what they put on the socket
	w("\nDefinition ws_shape : list (string * list string) := [\n")
	wos := []co{
		{"transport/websocket.go", "Write", []string{".wmu.Lock", ".wmu.Unlock", ".Conn.Write", "wsutil.WriteServerBinary"}},
	}
	for i, c := range wos {
		ts := callOrder(parse(filepath.Join(*repo, c.file)), c.fn, c.want)
		q := make([]string, len(ts))
		for j, t := range ts {
			q[j] = "\"" + t + "\""
		}
		sep := ";"
		if i == len(wos)-1 {
			sep = ""
		}
		w("  (\"%s\", [%s])%s\n", c.fn, strings.Join(q, "; "), sep)
	}
	w("].\n")

	// ---- order of the accesses of an outbound acknowledgement and of the writer's pop
	w("\nDefinition ack_shape : list (string * list string) := [\n")
	aos := []co{
		{"connection/ack.go", "release", []string{".messages.LoadAndDelete", ".messages.Load", ".messages.Delete", ".messages.Store", ".onRelease"}},
		{"connection/writer.go", "releaseID", []string{".flow.release", ".flow.acquire", ".flow.reAcquire"}},
		{"connection/writer.go", "qos12PopPacket", []string{".flow.quotaAvailable", ".flow.acquire", ".qos12Messages.Remove", ".pubOut.store", ".flow.release"}},
	}
	for i, c := range aos {
		ts := callOrder(parse(filepath.Join(*repo, c.file)), c.fn, c.want)
		q := make([]string, len(ts))
		for j, t := range ts {
			q[j] = "\"" + t + "\""
		}
		sep := ";"
		if i == len(aos)-1 {
			sep = ""
		}
		w("  (\"%s\", [%s])%s\n", c.fn, strings.Join(q, "; "), sep)
	}
	w("].\n")

	if *out == "" {
		fmt.Print(sb.String())
		return
	}
	if err := ioutil.WriteFile(*out, []byte(sb.String()), 0o644); err != nil {
		fmt.Fprintln(os.Stderr, err)
		os.Exit(1)
	}
}
