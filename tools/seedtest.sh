#!/bin/bash
# usage: seedtest.sh <Cxx> <worktree> <name>   — confirm a sub-agent's seeded change, store it, run the check against it
set -u
P=$1; WT=$2; NAME=$3
export GOFLAGS=-mod=mod GOPROXY=off GOSUMDB=off GOTOOLCHAIN=local
D=/verif/seeded/$NAME; mkdir -p $D
git -C $WT diff > $D/patch.diff
DEMO=$(git -C $WT status --porcelain | grep '^??' | awk '{print $2}' | grep _test.go | head -1)
cp $WT/$DEMO $D/$(basename $DEMO)
PKG=./$(dirname $DEMO)
echo "== demo WITH change"; (cd $WT && go test -mod=mod -vet=off -count=1 -run 'Demo|demo' $PKG 2>&1 | tail -5); 
echo "== suite WITH change (demo moved aside)"; mv $WT/$DEMO /tmp/demo_aside.go; (cd $WT && go test -mod=mod -vet=off -count=1 ./... 2>&1 | grep -v "no test files" | tail -8); mv /tmp/demo_aside.go $WT/$DEMO
echo "== demo WITHOUT change"; (cd $WT && git apply -R $D/patch.diff && go test -mod=mod -vet=off -count=1 -run 'Demo|demo' $PKG 2>&1 | tail -3; git apply $D/patch.diff)
echo "== check against the change"
if git -C /repo apply $D/patch.diff; then (cd /verif && timeout 1500 ./check $P > $D/check.out 2>&1; echo "exit=$?" >> $D/check.out); else echo "PATCH DOES NOT APPLY to /repo's current tree: port it" > $D/check.out; fi; git -C /repo checkout -- . ; cat $D/check.out | tail -5
echo "demo=$DEMO"
