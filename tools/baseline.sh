#!/bin/bash
# Runs the repository's pinned test suite (guard OFF). Prints pass/fail counts; exit 0 iff no test failed.
cd /repo || exit 2
export GOFLAGS=-mod=mod GOPROXY=off GOSUMDB=off GOTOOLCHAIN=local
out=$(go test -mod=mod -vet=off -count=1 -timeout 25m ./... 2>&1)
rc=$?
echo "$out" | grep -E "^(ok|FAIL|---|panic)" | head -50
exit $rc
