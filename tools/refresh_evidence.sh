#!/bin/bash
# Re-runs every claimed quick check on the (clean) tree so that the committed evidence comes from clean-tree runs.
cd /verif
if [ -n "$(git -C /repo status --porcelain --untracked-files=no)" ]; then echo "/repo has uncommitted changes: refusing"; exit 1; fi
rc=0
for p in $(python3 -c "import json; print(' '.join(c['property_id'] for c in json.load(open('MANIFEST.json'))['checks']))"); do
  ./check $p --tier quick | tail -3 || rc=1
done
python3-vt tools/validate.py || rc=1
exit $rc
