#!/usr/bin/env python3
"""prints the prompt given to an independent sub-agent that seeds a property-breaking change"""
import json, sys
pid, wt = sys.argv[1], sys.argv[2]
props = {json.loads(l)['id']: json.loads(l) for l in open('/verif/properties.jsonl')}
p = props[pid]
print(f"""You are given a scratch git worktree of the Go project VolantMQ/volantmq (an MQTT 3.1/3.1.1/5.0 broker) at {wt}. Work ONLY inside {wt} (and /tmp if you need scratch space). Do not read or touch /repo, /verif or any other directory. There is no network. Per shell call use: export GOFLAGS=-mod=mod GOPROXY=off GOSUMDB=off GOTOOLCHAIN=local. The project's test suite is run with: cd {wt} && go test -mod=mod -vet=off -count=1 ./...  (note `go build ./...` reports a pre-existing, harmless error for the root package; build the sub-packages instead, e.g. go build ./connection/... ./clients/... ./topics/... ./transport/... ./types/... ./subscriber/... ./server/... ./auth/...).

Here is a semantic property the broker is supposed to satisfy:

  Title: {p['title']}
  Statement: {p['statement']}
  Quantified over: {p['quantifier']['text']}
  Code it is anchored in: {', '.join(p['anchors']['files'])}

YOUR TASK: produce ONE realistic change (a bug a developer could plausibly introduce: an off-by-one, a reordered statement, a missing/misplaced check, a wrong comparison, a forgotten state update, a "performance optimisation", two cooperating edits that each look fine alone ...) to the NON-TEST Go source in {wt} that BREAKS this property, such that:
  1. the project still compiles and the existing test suite (command above) still passes, unedited;
  2. the breakage needs something SPECIFIC to manifest - a particular multi-step sequence of operations, an unusual input, a particular interleaving, a boundary value - NOT something any ordinary use would expose at once (e.g. do not simply make every publish fail);
  3. you write a demonstration: a Go test file (put it in an appropriate package directory of the worktree, name it zz_demo_test.go, it may be an internal `package xyz` test to reach unexported identifiers, or drive the broker through its exported API) that FAILS with your change and PASSES on the unchanged code. Verify both: run it with your change applied, then save your source change with `git diff > /tmp/<your-worktree-name>.patch` and undo it with `git checkout -- <file>` (keep the demo test), run the demo again to see it pass, then re-apply with `git apply /tmp/<your-worktree-name>.patch`. Do NOT use `git stash`: the stash is shared between worktrees and other engineers work in sibling worktrees.
Keep the change small (a few lines, at most two files). Do not change any *_test.go file other than adding your demo. Do not change go.mod/go.sum.

When done, leave the worktree with your change and the demo test in place (uncommitted), and reply with: (a) the output of `git -C {wt} diff` (source change only), (b) the path of the demo test, (c) one paragraph: what the change breaks and exactly what is needed for it to manifest, (d) the commands you ran and their outcome with/without the change.""")
