# Per-property configuration of ./check
PROPS = {}

def prop(id, **kw):
    kw["id"] = id
    kw.setdefault("harness", id)
    PROPS[id] = kw

prop("C17",
     coq=["model/WS.v", "proofs/WSProofs.v", "model/WsOut.v", "proofs/WsOutProofs.v", "gen/Extracted.v", "chk/C17chk.v", "props/C17.v", "refute/C17.v"],
     n={"quick": 300, "thorough": 6000, "search": 1500},
     shrink_fields=["frames", "sizes"],
     rule="stream cases: 1-8 binary frames with sizes from {0,1,2,b-1,b,b+1,2b,3b+1,random} against read buffers b in {1,2,3,7,16,64} "
          "(constant or varying per read), client sends frame k+1 only when all bytes sent so far were read (so a read that waits for a "
          "further frame although bytes are available is observed as Blocked); before 12% of the binary frames the client also sends a TEXT frame (never part of the stream the model expects); "
          "every 10th case is a handshake with a sub-protocol value from a 17-word list (the MQTT names, near misses such as mqttv3.1x1, others). non-trivial = some frame larger than the read buffer (remainder path) or a handshake; distinct by case JSON.",
     level_text="Theorems (coq/props/C17.v) over the executable model of wsConn.Read: for every list of frames and every list of read-buffer sizes, "
                "bytes read ++ buffered remainder ++ pending frames = concatenation of the frame payloads (nothing lost, duplicated, reordered), completeness after EOF "
                "or enough non-empty reads, and a read with buffered bytes returns >=1 byte without consuming a frame. The model is tied to transport/websocket.go by "
                "a differential run over a real loopback WebSocket listener (transport.NewWS). Partial: the sub-protocol refusal is an HTTP behaviour compared with a word list, not proved.",
     level_note="Trusted: Coq kernel + vm_compute; hand translation of wsConn.Read (checked on every run against the implementation); gobwas/ws framing; Go net stack.",
     trusted_base=["gobwas/ws client and server framing", "HTTP handshake (tested, not proved)"],
     assumptions=["frames arrive in order on one TCP connection", "sub-protocol acceptance is compared with a word list, not proved"],
)

prop("C13",
     coq=["gen/Extracted.v", "model/Route.v", "proofs/RouteProofs.v", "model/Flow.v", "model/Writer.v", "proofs/FlowProofs.v", "proofs/WriterProofs.v", "proofs/NoLoss.v", "proofs/WriterFifo.v", "model/Handoff.v", "proofs/HandoffProofs.v", "model/LFShape.v", "model/HandoffShape.v", "chk/C13chk.v", "props/C13.v", "refute/C13.v"],
     n={"quick": 48, "thorough": 1000, "search": 200},
     shrink_fields=[],
     rule="stream cases: 1-3 publishers x 1-3 topics x 1-3 subscribers (v3.1.1/v5, Receive Maximum 1/2/unlimited) through clients.Manager over net.Pipe, "
          "20-80 (thorough 50-500) sequence-numbered messages per publisher at QoS 0/1/2 or mixed; the subscriber-side arrival order per "
          "(subscriber, publisher, topic, qos) must be 1,2,3,... and complete. Every 8th case replays the two-worker witness of refute/C13.v on the "
          "provider (memlockfree or mem) with a stub that holds message 1 until message 2 arrives. Every 8th case streams to SLOW subscribers (a pipe of 64 bytes, 1 ms per read: the writer is regularly blocked in its Write). Every 8th case is a 'closerace' (a durable subscriber with Receive Maximum 1 and queued QoS 1 messages, its connection ends, "
          "the harness holds PacketsStore open while further messages are routed: the next connection must receive 1..N+K in order), every 8th a 'loadrace' (the same at the reconnect: the start-up load of the backlog is held while fresh messages are routed; QoS 0 and 1). non-trivial = more than one message; distinct by case JSON.",
     level_text="Theorem (coq/props/C13.v): for the number of routing workers found in topics/memlockfree/topics.go and topics/mem/topics.go by the translator "
                "(coq/gen/Extracted.v, regenerated on every run), under EVERY schedule of the routing workers each subscriber is handed exactly the messages it must get, "
                "in publication order (prefix at any time, equality at quiescence); refute/C13.v shows the statement false for two workers. Tied to the code by the translator "
                "(worker count) and by sequence-numbered streams through the real broker plus a gated-stub replay of the two-worker witness. The writer side is a theorem too (C13_writer_fifo): over every history of writer rounds, acknowledgements, disconnects and reconnects, "
                "first transmissions so far ++ what still waits = what was handed to the session, in order. Across connections (model/Handoff.v, one step per critical section of the subscriber's lock: routing, transmission, connection end begin/end, set-up begin/end): C13_handoff_order - for EVERY interleaving, first transmissions so far ++ what is pending "
                "(writer queue, persistence, senders held until the backlog is loaded, publishers waiting for the hand-over) = what the routing layer handed to the session, in that order; C13_handoff_no_stall - on an established connection whatever is pending is what the writer transmits next; "
                "C13_handoff_shape - the translator re-reads the order of the corresponding calls in Acknowledge, onConnectionCloseStage2, writer.send, SignalOffline, SignalConnectionClose; refute/C13.v: the two orders the code had before (connection end: inversion; set-up: a message stranded in persistence). "
                "Partial: goroutine scheduling inside the Go runtime is modelled, not verified; the queue between routing and writer is C18's refinement theorem.",
     level_note="Trusted: Coq kernel + vm_compute; tools/goextract reading publisherCount; the atomicity granularity of the routing model (take from channel, hand to one subscriber); the Go harness.",
     trusted_base=["tools/goextract: publisherCount literal and its for-loop in NewMemProvider; callOrder of the hand-over functions"],
     assumptions=["a worker's hand-over to one subscriber (subscriber.Publish -> queue Add under the queue mutex) is atomic", "the inbound Go channel is FIFO"],
)

prop("C04",
     coq=["model/Inbound.v", "proofs/InboundProofs.v", "chk/C04chk.v", "props/C04.v", "refute/C04.v"],
     n={"quick": 500, "thorough": 10000, "search": 2000},
     shrink_fields=["evs"],
     rule="sequences of 3-16 client packets over PUBLISH(qos 0/1/2, id, dup, authorised or not) and PUBREL(id) with ids from a 4-element pool "
          "(20%: 12-element pool; 3% id 0), server Receive Maximum in {1,2,3,10}, protocol v3.1.1 / v5, through clients.Manager; after every packet a "
          "PINGREQ barrier on the publisher and QoS0+QoS1 sentinels to a '#' watcher attribute responses and forwards to that packet. "
          "Every 10th case is PIPELINED: the whole sequence in one write to a connection with 16 bytes of pipe whose client takes 2 ms per read (the broker's writer lags behind its reader), "
          "all responses compared in wire order (Receive Maximum 100: no termination in the middle). non-trivial = contains a repeated QoS 2 id or a PUBREL; distinct by case JSON.",
     level_text="Theorems (coq/props/C04.v) over the executable model of onPublish/onAck(PUBREL): for every packet sequence, protocol version and Receive Maximum: "
                "the invariant quota + unreleased = RM with unique ids; QoS 1 -> exactly [PUBACK id; forward]; QoS 2 -> exactly one PUBREC id and no forward at that step; "
                "PUBREL -> forward + PUBCOMP iff the id is stored, else PUBCOMP 'not found' with no effect; stores = releases + still stored (exactly once); id 0 terminates; "
                "termination for quota iff RM QoS 2 messages are unreleased; a duplicate QoS 2 PUBLISH changes nothing. Tied to connection/connection.go by per-packet differential runs.",
     level_note="Trusted: Coq kernel + vm_compute; hand translation of onPublish/onAck; the vlapi codec used by both broker and harness client; ACL decisions enter as a per-packet boolean.",
     trusted_base=["vlapi/mqttp codec (shared by broker and harness client)"],
     assumptions=["topic alias / retain-not-supported branches of onPublish are exercised by C14 / not modelled here", "ACL verdict is an oracle (boolean per packet)"],
)

prop("C14",
     coq=["model/Alias.v", "proofs/AliasProofs.v", "model/Auth.v", "proofs/AuthProofs.v", "chk/C14chk.v", "props/C14.v", "refute/C14.v"],
     n={"quick": 400, "thorough": 8000, "search": 1500},
     shrink_fields=["topics", "pkts"],
     rule="every 25th case 'resume': a durable v5 subscriber with Topic Alias Maximum 1/2/5 leaves 2-9 aliased QoS 1 messages unacknowledged and reconnects - the retransmissions must decode and resolve against the new connection's empty alias table; "
          "even cases (outbound): subscriber v5 (15%: v3.1.1) announcing Topic Alias Maximum in {0,1,2,5,65535}, 2-21 publishes over 1-8 distinct topics with recurrences; "
          "observable per received PUBLISH: (topic present?, alias property). odd cases (inbound): server maximum in {0,2,5}, v5 publisher sending 2-13 packets "
          "(plain / binding / alias-only; 35% of sequences contain alias 0, alias > maximum, unbound alias or empty topic without alias), 10% unauthorised topics; "
          "observable: topics routed to a '#' watcher in order, termination and DISCONNECT reason. non-trivial = outbound with max>0 or any inbound; distinct by case JSON.",
     level_text="Theorems (coq/props/C14.v): for every Topic Alias Maximum and every sequence of topics, every packet produced by the model of writer.setTopicAlias resolves, under the MQTT 5 "
                "receiver table, to the published topic, uses aliases only in 1..max and none when max = 0 (invariant: sender map is contained in the receiver table); for every inbound history "
                "an alias-only PUBLISH is routed to the topic LAST bound to that alias on the connection, and alias 0 / above the maximum / unbound terminates. Tied to connection/writer.go and "
                "connection/connection.go by differential runs in both directions; the receiver-table oracle is also applied directly to the observed packets.",
     level_note="Trusted: Coq kernel + vm_compute; hand translation of setTopicAlias and of the alias part of onPublish; vlapi codec (rejects alias 0 and an empty topic without alias at decode time).",
     trusted_base=["vlapi/mqttp codec"],
     assumptions=["ACL verdict per packet is an oracle", "the DISCONNECT reason for an invalid alias may be 0x94, 0x81 or 0x82 (the property only requires termination)"],
)

_WRITER_COQ = ["gen/Extracted.v", "model/Flow.v", "model/Writer.v", "model/LFShape.v", "model/AckOrder.v", "proofs/FlowProofs.v", "proofs/WriterProofs.v", "proofs/AckOrderProofs.v", "chk/C03chk.v"]
_WRITER_RULE = ("histories of 4-25 operations (+12 draining acks) against one durable subscriber S (v5 with Receive Maximum in {1,1,2,3,10}, 15% v3.1.1): "
    "send(qos 0/1/2, expiry none/1 s/100 s) by a publisher, ack(k-th outstanding handshake of the client's own log; 10% PUBREC with error code on v5), abrupt close, "
    "reconnect(rm, possibly changed, never below the client's outstanding count). After every operation: routing barrier (sentinel to a second subscriber) and "
    "writer barrier (two PINGREQ round trips), so S's packets are attributed to the operation without timing. Coq replays the concrete event list through the writer model "
    "(wire output per operation must agree, reconnect step as a multiset) AND evaluates the property oracle on S's own log (in-flight <= RM, ids non-zero, reuse only after completion "
    "or as DUP retransmission). non-trivial = every history (all contain QoS>0 traffic and acks); distinct by case JSON.")
prop("C03",
     coq=_WRITER_COQ + ["props/C03.v", "refute/C03.v"],
     n={"quick": 600, "thorough": 12000, "search": 2500},
     shrink_fields=["ops"], shrink_min=1,
     rule=_WRITER_RULE,
     level_text="Theorems (coq/props/C03.v) over the executable model of flowControl.go + writer.go: for EVERY Receive Maximum 0..65535 and EVERY guarded history of send / writer round / ack / "
                "expiry / close / reconnect: the writer never gets stuck in the identifier search (the candidates cover the whole cycle 1..65535: wrap-around), and in every reachable state "
                "quota + |in use| = RM, identifiers in use are pairwise distinct and non-zero, everything put on the wire at QoS>0 is registered in use, a fresh identifier is never one in use, "
                "and at quiescence the full RM is available again. Guard: the client acknowledges only what it was sent and reconnects with RM >= its unacknowledged count; outside the guard "
                "refute/C03.v gives the witness (open known finding C03-reconnect-lower-rm, replayed on every run). Finer than one Flow operation (model/AckOrder.v: an acknowledgement as its two accesses, the writer's pop between them; "
                "the order of the accesses is re-read from connection/ack.go and writer.go on every run, C03_ack_shape): C03_ack_order_accounting - for EVERY interleaving identifiers in use stay distinct, quota + in use = RM, and between acknowledgements "
                "the identifiers in use are exactly those of the registered unacknowledged messages; the order the code had is refuted (C03_ack_order_as_it_was_refuted). Partial: other reader/writer interleavings (expiry sweep against acknowledgement).",
     level_note="Trusted: Coq kernel + vm_compute; hand translation of flowControl.go/writer.go/onAck incl. the abstraction of the uint32 counter to the id cycle 1..65535 (checked by the differential run); persistence backend semantics (append, remove-on-load).",
     trusted_base=["vlplugin persistence/mem (append on store, remove on load)", "vlapi codec"],
     assumptions=["generic packets (SUBACK, PINGRESP ...) are not modelled", "one popPackets round is atomic w.r.t. acknowledgement processing"],
)
prop("C02", harness="C02",
     coq=_WRITER_COQ + ["proofs/NoLoss.v", "props/C02.v", "props/C03.v"],
     n={"quick": 500, "thorough": 10000, "search": 2000},
     shrink_fields=["ops"], shrink_min=1,
     rule=_WRITER_RULE + " For C02 every history contains close/reconnect operations; every 6th has 'flap' operations (reconnect over a pipe of 16 bytes capacity, drop while the broker's writer is blocked mid-retransmission); "
          "a quarter of the reconnects are 'late' operations: the persistence backend is wrapped by a gate (harness/gatepersist.go) that holds the routing worker inside PacketStoreQoS12 for a message routed to the OFFLINE session while the client reconnects - "
          "to the model: a message handed over while offline, then a reconnect (it must be delivered in that connection). 20% of the offline phases contain a 'restart' (Manager.Stop + Shutdown, a new manager over the same persistence: no event for the writer model). "
          "12% of the acknowledgements are sent twice and 4% (v5) are refusing PUBRECs for identifiers that were never in flight (events of their own: they must free nothing). Corpus: 'wrap' (131100 deliveries, identifier 65535 stuck), 'bulk' (65540 offline messages), "
          "'ackorder' (verif hook of package connection: a freed identifier reused inside the release callback).",
     level_text="Theorems (coq/props/C02.v, with the C03 invariant): for every Receive Maximum >= 1 a connected client that acknowledged everything is sent the next pending QoS 1/2 message by the "
                "next writer round (no stall); everything transmitted and unacknowledged at connection end is queued with its identifier and DUP=1 for unconditional retransmission at reconnect "
                "and is served first; queued unexpired messages survive in persistence. C02_no_loss (proved, over EVERY guarded history of publish / writer round / acknowledgement / disconnect / reconnect events, every Receive Maximum): "
                "a QoS 1/2 message without expiry handed to the session is afterwards still pending (queued, awaiting retransmission, in flight, or persisted) unless the client has acknowledged it. "
                "Outside the guard (reconnect announcing a Receive Maximum below the unacknowledged count): known finding C03-reconnect-lower-rm. Messages exceeding the client's Maximum Packet Size are C12's.",
     level_note="Trusted: as C03; plus clients.sessionPersistPublish modelled as the offline branch of send.",
     trusted_base=["vlplugin persistence/mem", "vlapi codec"],
     assumptions=["the session stays durable (no expiry elapses) during a history", "Maximum Packet Size filtering is not modelled"],
)

prop("C18",
     coq=["gen/Extracted.v", "model/Queue.v", "proofs/QueueProofs.v", "model/Prims.v", "proofs/PrimsProofs.v", "chk/C18chk.v", "props/C18.v", "refute/C18.v"],
     n={"quick": 300, "thorough": 6000, "search": 900},
     shard=25,
     shrink_fields=["ops"],
     rule="70% sequential op sequences on types.Queue (Add/Remove/Peek/Length/Get incl. negative and out-of-range indices) whose fill level is steered to targets "
          "{3,15,16,17,31,...,257} (1%: up to 1025; thorough also up to 4097) with counter-steps so that head/tail travel around the ring, compared element-wise with the model AND the list FIFO spec; "
          "10% concurrent producers/consumers (1-4 x 1-4, 50-350 elements each): every element exactly once, per-producer order at each consumer; "
          "10% OnceWait with 2-32 callers: action ran once, no caller returned before it finished (event log); "
          "10% worker pool (size 1-8, queue 0-4, pre-spawn 0-size, 10-70 tasks): every accepted task ran exactly once, at most size running at once. "
          "non-trivial = sequential case whose peak fill exceeds 16 (a resize happened) or any concurrent case; distinct by case JSON.",
     level_text="Theorem (coq/props/C18.v): the ring buffer of types/queue.go refines the list FIFO for EVERY operation sequence (unbounded length: every growth/shrink threshold), "
                "with the invariant capacity = 2^k (k>=4, the constant minQueueLen is re-extracted from the source on every run); proved via the rotation view and the bit-mask = modulo lemma. "
                "Since every Go method holds the mutex for its whole body, concurrent executions are interleavings of these atomic operations. "
                "OnceWait.Do and Pool are small-step machines (model/Prims.v: one mutex / compare-and-swap / WaitGroup / channel operation per step, any number of threads, explicit scheduler): for EVERY schedule the action is entered at most once "
                "and a caller that has returned has seen it finished (C18_oncewait_once_and_waits), some caller can always move until all have returned (C18_oncewait_progress; refute/C18.v: without the mutex a late caller returns before the action started); "
                "the pool's live workers = semaphore tokens <= size, queue <= capacity, and accepted tasks = executed + queued + about-to-run as multisets (C18_pool_bounded_and_exactly_once). "
                "These two machines are tied to the code by recorded concurrent executions judged by the oracle functions of chk/C18chk.v (not by a step-by-step replay); the Go memory model is trusted.",
     level_note="Trusted: Coq kernel + vm_compute; hand translation of queue.go, OnceWait.Do and pool.go; tools/goextract (minQueueLen); sync.Mutex / sync.WaitGroup / channel semantics as modelled; the Go memory model.",
     trusted_base=["sync.RWMutex and the Go memory model", "tools/goextract: minQueueLen"],
     assumptions=["each Queue method is atomic (holds the mutex for its whole body)"],
)

_TRIE_COQ = ["gen/Extracted.v", "model/Trie.v", "model/Match.v", "proofs/TrieProofs.v", "proofs/TrieHistory.v", "chk/C01chk.v"]
_TRIE_RULE = ("histories of 6-35 operations on a topics provider (2/3 memlockfree, 1/3 mem) with recording stub subscribers: subscribe/resubscribe (3 sessions, QoS 0-2, Retain Handling 0-2), "
    "unsubscribe, retained set/clear (QoS 0-2, empty payload, already-expired), publish, Retained(filter); topics and filters over the level alphabet {a, b, empty, $s, e-acute, +, #}, depth 1-4, "
    "biased to re-use earlier filters/topics and to derive topics from filters (that is where pruning and wildcards decide). Publish barrier: sentinel publish (single routing worker); "
    "retain barrier: sentinel retain polled through Retained. Every observation (receiver set of a publish, tags returned by Retained / by Subscribe) is compared with Trie.v AND with the "
    "specification (Match.v on the abstract subscription / retained maps). Every tenth history runs through the WHOLE broker instead (harness/c01broker.go): sessions 1-2 are MQTT 5 connections, session 3 MQTT 3.1.1, "
    "a v5 connection publishes; SUBSCRIBE (QoS 2, Retain Handling 0-2) / UNSUBSCRIBE / PUBLISH / retained PUBLISH (QoS 0-2, possibly empty) go over the wire, a quarter of the (session, filter) pairs as a shared subscription "
    "$share/g<session>/<filter> (a group of one member), after each step a routing barrier and a PINGREQ barrier on every connection; a retained publish is compared as a store operation AND as a publish (receiver set). "
    "non-trivial = at least one non-empty delivery or retained result; distinct by case JSON.")
prop("C01", harness="C01",
     coq=_TRIE_COQ + ["props/C01.v"],
     n={"quick": 600, "thorough": 15000, "search": 2500},
     shrink_fields=["ops"],
     rule=_TRIE_RULE,
     level_text="Theorem (coq/props/C01.v): for EVERY well-formed index tree and EVERY wildcard-free topic (any depth, empty levels, '$' prefixes, arbitrary bytes) the search walk shared by both topic "
                "indexes returns a subscription IF AND ONLY IF its filter matches the topic under the MQTT rules of the property text (Match.v, written from the statement, not from the code). "
                "C01_publish_iff_full (proved): after ANY history of subscribe / re-subscribe / unsubscribe / retain-set / retain-clear the tree is well-formed and holds exactly the abstract subscription map of the history, "
                "so a session receives a publish iff that map holds a matching filter of it - the property's statement over all histories. Tied to both providers by differential histories, with the specification evaluated independently of the tree model. "
                "Not in this theorem: multiplicity/params of the copies (C08) and concurrency (C09).",
     level_note="Trusted: Coq kernel + vm_compute; hand translation of node.go (both tries, sequential semantics); strings.Split modelled by Trie.split (exercised: the harness passes raw topic strings).",
     trusted_base=["sync.Map / Go map semantics as association lists"],
     assumptions=["operations are executed one at a time (concurrency is C09)"],
)
prop("C07", harness="C07",
     coq=_TRIE_COQ + ["proofs/TrieRetained.v", "props/C07.v"],
     n={"quick": 600, "thorough": 15000, "search": 2500},
     shrink_fields=["ops"],
     rule=_TRIE_RULE,
     level_text="Theorems (coq/props/C07.v), all over EVERY history: the retained pairs of the tree are exactly the specification's store (per topic the most recent retained publish with non-empty payload; an empty payload removes it; "
                "one entry per topic at most) - C07_store_after_history; for every filter with '#' only as last level the retained walk of both providers returns exactly the unexpired stored messages whose topics match the filter under Match.v "
                "('+', trailing '#', '$' topics only by the same literal first level, '#' alone not an empty first level) - C07_retained_walk_full; setting or clearing a retained message never adds, removes or alters any subscription at any depth - "
                "C07_retain_preserves_all_subs. Not theorems: Retain Handling (send always / if new / never) is compared by the correspondence check; RETAIN=1 on what is sent is C08's; expiry enters as a flag on the stored message.",
     level_note="Trusted: as C01; message expiry enters as a boolean (already expired or not).",
     trusted_base=["sync.Map / Go map semantics as association lists"],
     assumptions=["expiry is modelled as a flag fixed at retain time"],
)

prop("C06",
     coq=["gen/Extracted.v", "model/ConnSM.v", "chk/C06chk.v", "props/C06.v"],
     n={"quick": 600, "thorough": 15000, "search": 2500},
     shard=1000,
     shrink_fields=["pkts"], shrink_min=1,
     rule="packet sequences on one connection: cells 0-44 enumerate every one of the 15 packet types as FIRST packet on v3.1 / v3.1.1 / v5, cells 45-89 every type as SECOND packet after CONNECT; "
          "the rest: CONNECT (10%: some other type) followed by 0-8 packets, 85% from the legal client set (PUBLISH qos 0-2, acks with unknown ids, SUBSCRIBE/UNSUBSCRIBE with 1-3 filters, PINGREQ), "
          "15% any type; identifier 0 in 10-12% of the packets that carry one; options: protocol version not allowed (8%), subscription identifiers unsupported (25%), CONNECT with Authentication Method / refused credentials (10%). "
          "Lock-step with a two-round-trip PINGREQ barrier; observables: response types, identifiers, number of codes, closure, DISCONNECT presence; a bystander client must still be served. "
          "non-trivial = more than one packet; distinct by case JSON.",
     level_text="Theorems (coq/props/C06.v): the admissibility table extracted from connection/connection.go on every run IS the set of packet types a client may send per state (by computation); "
                "first packet other than CONNECT -> closed, nothing sent; over every packet sequence exactly one CONNACK, before anything else, and silence once nothing was answered; every packet "
                "illegal in an established connection (server-to-client types, second CONNECT, unsolicited AUTH, identifier 0) closes it, a v5 connection being sent DISCONNECT first; "
                "SUBSCRIBE/UNSUBSCRIBE/PINGREQ get exactly their response; the closed state is absorbing. Tied by the translator and by differential runs over all 15 types x 3 versions. "
                "Open known finding C06-unsuback-no-codes (external codec).",
     level_note="Trusted: Coq kernel + vm_compute; tools/goextract (keys of expectedPacketType and the presence-test shape of the lookup); hand translation of processIncoming/onConnect/processConnect; vlapi codec (with two harness-side workarounds for v5 UNSUBSCRIBE encode / UNSUBACK decode).",
     trusted_base=["tools/goextract: expectedPacketType", "vlapi/mqttp codec"],
     assumptions=["publish/ack handling beyond 'no outstanding handshake' is C04/C03", "re-authentication is unreachable: no authentication method is ever accepted"],
)

prop("C19",
     coq=["gen/Extracted.v", "model/KeepAlive.v", "proofs/KeepAliveProofs.v", "chk/C19chk.v", "props/C19.v"],
     n={"quick": 48, "thorough": 480, "search": 96},
     shrink_fields=[],
     rule="real-time runs, 24 in parallel: 5/6 'keep' cases with client keep-alive K in {1,2,2,3,0}, 25% with a forced server keep-alive of 1-2 s, and 0-4 packets (PINGREQ / PUBLISH qos0 / SUBSCRIBE) "
          "sent at gaps either clearly inside the deadline or at most K seconds, then silence (a quarter of the cases with traffic are 'fragmented': PINGREQs written as 'C0', then '00 C0' at each send time, so every segment ends inside a packet); 1/6 'conn' cases: a socket that never sends CONNECT with connect timeout 1-2 s. "
          "Observables: whether and when the broker closed (ms since a time stamp taken BEFORE the CONNECT was written / the socket was opened; every send time is taken before its write, so a measured silence never under-estimates the one the broker saw), "
          "and whether a watcher saw the Will. Coq computes the expected closure time from the extracted "
          "formula and the ACTUAL send times; lower bounds are exact (never before the deadline, never before K s of silence), scheduling slack of 1.5 s is allowed above only. "
          "non-trivial = every case; distinct by case JSON.",
     level_text="Theorems (coq/props/C19.v) on the deadline expression RE-EXTRACTED from connection/options.go on every run: for every K >= 0 it equals floor(1.5 K) and lies in [K, 3K/2]; K = 0 disables the timer; "
                "over the reader-loop model (deadline re-armed after every processed packet, logical time) a silent connection is closed exactly at last + 1.5 K, whatever the traffic never before K of silence, "
                "and a connection sending at least every K seconds (K >= 2; K = 1 needs gaps < 1 s since floor(1.5) = 1) is not closed while it does so. Tied by the translator and by timed differential runs "
                "(also: closure by deadline publishes the Will, i.e. counts as abnormal; the connect phase uses the same formula on the connect timeout). Partial: real timers / OS read deadlines are outside the theorem.",
     level_note="Trusted: Coq kernel; tools/goextract (argument of time.Duration in KeepAlive); Go net deadlines and timers; wall-clock measurement in the harness (exact below, 1.5 s slack above).",
     trusted_base=["tools/goextract: keepalive expression", "Go timers / read deadlines"],
     assumptions=["the reader re-arms the deadline once per processed packet", "time is measured on the client side from the completion of its write"],
)

prop("C12",
     coq=["model/Framing.v", "proofs/FramingProofs.v", "chk/C12chk.v", "props/C12.v", "refute/C12.v"],
     n={"quick": 300, "thorough": 8000, "search": 1200},
     shrink_fields=["pkts", "chunks"],
     rule="60% 'seg': CONNECT + 1-7 packets that each elicit exactly one response (PINGREQ, SUBSCRIBE, PUBLISH qos1, UNSUBSCRIBE) written in segments: one byte at a time / all at once / packet boundaries / "
          "CONNECT together with the next packet / 1-5 random chunk sizes cycled; the model reads the same bytes with the same chunking and must recover the packets, the independent splitter parse_all too, "
          "and the broker must answer every packet in order. 20% 'hostile': valid prefix then flipped bytes / truncation / arbitrary bytes, in random segments: bystander still served (fuzz support, labelled so). "
          "10% 'oversize': header announcing 100-200 MB against a 1-64 KB maximum, after CONNECT/CONNACK or (40%) as the very first packet of the connection: connection closed and process allocation (runtime.MemStats TotalAlloc delta) below half the announced size. "
          "10% 'outbound': v5 client announcing Maximum Packet Size 40-240, 12 publishes with payloads around that size (some with expiry): largest packet received <= maximum and the small ones all arrive. "
          "non-trivial = seg with at least one packet after CONNECT or any other kind; distinct by case JSON.",
     level_text="Theorems (coq/props/C12.v) over the executable model of reader.readPacket on a buffered reader fed by an adversarial read-size oracle: for EVERY byte string, EVERY two oracles and EVERY split "
                "between buffered and unread bytes the extracted packet sequence / rejection is the same (segmentation independence, CONNECT and what follows it included: one reader for the whole connection); "
                "every allocation the reader makes is bounded by the configured maximum and none is made for a packet rejected as too large; a remaining-length field of more than 4 bytes is a protocol error. "
                "refute/C12.v: the two-reader shape before the repair depends on segmentation. Partial: absence of panics/hangs inside the external codec for arbitrary bytes is NOT proved (hostile streams are fuzz support); "
                "outbound packet sizes are checked at the client, the size function itself is the codec's.",
     level_note="Trusted: Coq kernel + vm_compute; hand translation of readPacket and of bufio.Reader Peek/Read as (buffered, unread) with chunked fills; vlapi codec; runtime.MemStats for the allocation bound.",
     trusted_base=["bufio.Reader semantics", "vlapi/mqttp codec", "runtime.MemStats"],
     assumptions=["bufio's direct-read optimisation and finite buffer size are abstracted (they change chunking only, which the theorem quantifies over)"],
)

prop("C08",
     coq=["model/Trie.v", "model/Deliver.v", "proofs/DeliverProofs.v", "chk/C08chk.v", "props/C08.v", "refute/C08.v"],
     n={"quick": 500, "thorough": 14000, "search": 2000},
     shrink_fields=["subs"], shrink_min=1,
     rule="4/5 'live': one publish on t/a (QoS 0-2, RETAIN 35%, by the subscribing session itself 30% or by another client; publisher v3.1.1 or v5 - 35% of the v5 publishers send it alias-only on an alias first bound to another topic and then re-bound) against one session (v3.1.1 or v5) holding 1-3 distinct matching "
          "filters from {t/a, t/+, t/#, #, +/a} with generated granted QoS, No-Local, Retain-As-Published and subscription identifier (v5), overlap option on 40% (then No-Local/RAP uniform); "
          "1/5 'retained': a retained message (QoS 0-2, publisher v3.1.1 or v5) then a new subscription (granted QoS 0-2, Retain Handling 0-2, RAP; v5 subscribers announce a Topic Alias Maximum). "
          "Barrier: QoS0 + QoS1 markers on the publishing connection. Every PUBLISH received is decoded: QoS, RETAIN, DUP, ALL subscription identifiers (raw bytes), topic and payload intact; "
          "the multiset of copies is compared with the model. DUP=1 on retransmission is checked by C03's harness. non-trivial = every case; distinct by case JSON.",
     level_text="Theorems (coq/props/C08.v) over the executable model of the collection walk + subscriber.Publish: for EVERY list of matching subscriptions, published QoS and flags: overlap off -> exactly one copy per "
                "matching subscription that is not (No-Local and own publish), QoS = min(published, granted), RETAIN = RAP && published RETAIN, DUP = 0, exactly that subscription's identifier; overlap on (uniform options) -> "
                "exactly one copy at min(published, highest granted) with all identifiers; QoS never above the published one; a No-Local subscription never gets its own publish. refute/C08.v: the pre-repair shape. "
                "Tied by field-by-field differential runs over publisher/subscriber version pairs. Partial: with overlap on and mixed No-Local/RAP the property text does not fix the outcome (not claimed); topic/payload integrity is tested, not modelled.",
     level_note="Trusted: Coq kernel + vm_compute; hand translation of overlapping/nonOverlappingSubscribers, acquire, subscriber.Publish and the retained path of SignalSubscribe; vlapi codec (identifiers read from raw bytes).",
     trusted_base=["vlapi/mqttp codec"],
     assumptions=["which subscriptions match is C01's theorem; here they are given"],
)

prop("C15",
     coq=["model/Auth.v", "proofs/AuthProofs.v", "chk/C15chk.v", "props/C15.v", "refute/C15.v"],
     n={"quick": 300, "thorough": 6000, "search": 900},
     shrink_fields=["queries", "verdicts"], shrink_min=1,
     rule="2/3 'acl': generated configurations of the built-in authenticator (default ACL read/write each present or absent; plain users; users with their own ACL in all four read/write shapes; a users file "
          "overriding inline entries; a user defined both plain and enhanced) with patterns ^<prefix>.*$, 10 queries each (known/unknown user, right/wrong password, 5 topics, read/write), run on the REAL "
          "newSimpleAuth/Password/ACL through the verif-tagged test hook compiled once per run; a panic is an observation. 1/3 'chain': 1-3 scripted authenticators behind clients.Manager (v3.1.1 / v5): "
          "CONNACK code; after acceptance, per authenticator index j a QoS1 retained publish to a topic only authenticator j forbids (routed to a '#' watcher? retained? PUBACK reason) and a SUBSCRIBE holding "
          "one filter per index (SUBACK code per filter); after refusal, a session connected under the same client id must still be served. non-trivial = acl case with per-user ACLs or any chain case; distinct by case JSON.",
     level_text="Theorems (coq/props/C15.v): a CONNECT is accepted iff some configured authenticator accepts, and the permission object is the FIRST accepting one (for every chain); for EVERY configuration of the "
                "built-in user database an ACL check never panics (no credential ever holds a nil pattern) and a user's rules are exactly those of his last definition, falling back to the defaults rule by rule. "
                "refute/C15.v: the pre-repair loader. Enforcement (publish not routed, not retained, v5 PUBACK 0x87; SUBACK failure for that filter only; refused CONNECT disturbs nothing) is tied by the differential run "
                "(the publish/ack side is also C04's theorem). Partial: Go's regexp is an oracle (patterns restricted to prefix patterns in the run); password hashing is compared as strings.",
     level_note="Trusted: Coq kernel + vm_compute; hand translation of Manager.Password and newSimpleAuth/ACL; Go regexp; sha256; the verif hook (cmd/volantmq/auth_verif_test.go, build tag verif) that only calls the real functions.",
     trusted_base=["Go regexp", "crypto/sha256", "verif hook commit (test-only)"],
     assumptions=["patterns used in the run are of the form ^prefix.*$ so that matching is a prefix test"],
)

_SESS_COQ = ["model/Sessions.v", "proofs/SessionsProofs.v", "chk/C05chk.v"]
_SESS_NOTE = ("Trusted: Coq kernel + vm_compute; hand translation of clients/sessions.go, session.go, container.go, expiry.go into the sequential machine model/Sessions.v (checked on every run, "
              "step by step, against clients.Manager driven over in-memory connections with the in-memory persistence backend of vlplugin); wall-clock time enters the model as measured elapsed "
              "milliseconds per step, with samples kept >= 250 ms away from every timer deadline; the vlapi codec used by broker and harness client.")
_SESS_TB = ["vlapi/mqttp codec (shared by broker and harness client)", "gitlab.com/VolantMQ/vlplugin/persistence/mem as the persistence backend",
            "Go timers: a timer is taken to have fired iff the measured elapsed time passed its deadline (samples within 250 ms of a deadline are avoided)"]

prop("C05",
     coq=_SESS_COQ + ["props/C05.v"],
     n={"quick": 300, "thorough": 5000, "search": 600},
     shrink_fields=["ops"], shrink_min=1,
     rule="histories of 4-12 operations over two client ids through clients.Manager: connect (3.1.1 / 5, clean flag, Session Expiry absent/0/1/2/max), subscribe (v5: with Subscription Identifier), "
          "QoS1 publish / retained publish / retained clear by other clients (3.1.1 and 5 publishers), DISCONNECT (optionally with a new expiry), abrupt close, and in every 8th history waits of 1.5/2.5 s across the expiry deadlines. "
          "After every operation barriers (PINGREQ round trips, marker publish seen by a provider-level stub) close the step; observed per step: CONNACK (Session Present, code), deliveries per connection, wills. "
          "A client id keeps its protocol version within a history (known finding C05-version-change-loses-queue). non-trivial = more than one CONNECT; distinct by case JSON.",
     level_text="Theorems (coq/props/C05.v) over the session machine model/Sessions.v: in EVERY state reachable by any history a session without stored-state flag holds no subscription and no pending message, and a detached "
                "non-durable session holds nothing; CONNACK Session Present = stored state exists and no clean start; the end of a connection keeps subscriptions + pending messages exactly when the session is durable "
                "(v3 CleanSession=0 / v5 expiry as last set by CONNECT or DISCONNECT non-zero) and sets the deadline, otherwise leaves nothing; a detached durable session accumulates matching publishes; an elapsed expiry wipes, an unelapsed one changes nothing. "
                "Tied to clients/* by step-by-step differential histories. Partial: topic matching is equality here (C01 covers matching); pending messages are QoS1 only; real time enters as measured ticks.",
     level_note=_SESS_NOTE, trusted_base=_SESS_TB,
     assumptions=["one protocol version per client id within a history", "topics are matched by equality in this model", "samples are taken >= 250 ms away from timer deadlines"],
)

prop("C10",
     coq=_SESS_COQ + ["gen/Extracted.v", "model/LFShape.v", "model/ReaderKick.v", "proofs/ReaderKickProofs.v", "props/C10.v", "refute/C10.v"],
     n={"quick": 300, "thorough": 5000, "search": 600},
     shrink_fields=["ops"], shrink_min=1,
     rule="histories over two client ids with pre-emption on (65%) or off: sequential CONNECTs on identifiers in use (take-over / refusal), up to two RACES per history of 2-3 connections sending CONNECT for one identifier at the same "
          "moment (40%: the attached connection is closed by its client at that moment too), CONNECTs whose CONNACK cannot be written (client gone), subscribe / publish / DISCONNECT / abrupt close, and in every 4th history a CONNECT aimed "
          "(+-2 ms) at the moment a will-delay / session-expiry timer of its identifier fires. A race step is accepted iff SOME order of its events explains the observed CONNACKs, closures (v5: DISCONNECT 0x8E required), wills and deliveries "
          "(all orders are tried in Coq; every explaining state is carried on). Every CONNECT must be answered within 5 s; two final publishes show who still receives. non-trivial = contains a race, a take-over or a refusal; distinct by case JSON.",
     level_text="Theorems (coq/props/C10.v): every CONNECT is answered by exactly one CONNACK in every state; with pre-emption the old connection is closed FIRST, then its will (if due), then the new one is acknowledged and served, the identifier's slot "
                "holds the new connection and no other identifier changes; without pre-emption the new connection is refused (non-zero code) and NOTHING changes; in every reachable state a message is only ever handed to an attached connection. "
                "The model has one attachment slot per identifier by construction: that the real manager (container lock, removable/removed flags, timers) behaves like it under concurrent CONNECTs is checked as linearizability of observed races against the model. "
                "'Within bounded time' has one proved piece: model/ReaderKick.v (the reader's loop against the connection's close sequence against the client's packets, one access per step) - C10_reader_never_waits_for_the_client_after_close: from any point of the loop "
                "and under every interleaving the reader is not left waiting for the client once the close sequence has set its deadline, and is gone three steps later; C10_reader_shape: the translator re-reads the order of the accesses in reader.routine and onConnectionCloseStage2; "
                "the loop as it was is refuted (refute/C10.v). Special kinds: a stalled, a slow and a BUSY client taken over. Partial: goroutine interleavings inside the manager are sampled by the races, not enumerated; the rest of 'within bounded time' is a 5 s watchdog.",
     level_note=_SESS_NOTE, trusted_base=_SESS_TB + ["race steps: simultaneity is best effort (goroutines released by one channel close)"],
     assumptions=["connection numbers are fresh per CONNECT", "a CONNECT counts as unanswered after 5 s"],
)

prop("C11",
     coq=_SESS_COQ + ["props/C11.v"],
     n={"quick": 200, "thorough": 3000, "search": 400},
     shrink_fields=["ops"], shrink_min=1,
     rule="histories of 3-10 operations over two client ids: CONNECT with a will (70%; v5: Will Delay absent/0/1/2 s, Session Expiry absent/0/1/2/max), take-over of a connected id, DISCONNECT (v5: 35% reason 0x04 'with will', 20% new expiry), "
          "abrupt close, protocol error (second CONNECT), waits of 0.6/1.5/2.5 s, final wait 2.5 s; wills are observed by a provider-level stub on will/#, each tagged uniquely. non-trivial = more than one CONNECT; distinct by case JSON.",
     level_text="Theorems (coq/props/C11.v): AT MOST ONCE over every history - the number of publications of a will never exceeds the number of CONNECTs that declared it, whatever happens in between, for all ids at once (conservation invariant through "
                "take-over, timers, shutdown); the end of a connection publishes the will at once (no delay, or session ends with the connection), keeps it with deadline now+delay, or discards it on a client DISCONNECT (nothing published then or later); "
                "a pending will fires exactly when min(delay, session end) has passed and not before; a reconnect before that suppresses it. Tied to clients/session.go + expiry.go by timed differential histories. "
                "Partial: will QoS/retain/payload fidelity is the delivery model's subject (C08); keep-alive timeout as a cause of abnormal end is C19's.",
     level_note=_SESS_NOTE, trusted_base=_SESS_TB,
     assumptions=["will tags are unique per CONNECT in the generated histories", "samples are taken >= 250 ms away from timer deadlines"],
)

prop("C16",
     coq=_SESS_COQ + ["props/C16.v"],
     n={"quick": 300, "thorough": 5000, "search": 600},
     shrink_fields=["ops"], shrink_min=1,
     rule="a generated population (connects 3.1.1/5 with all expiry values, wills in every 3rd case, subscriptions with identifiers, publishes, retained set/clear by 3.1.1 and 5 publishers, DISCONNECTs, drops, waits in every 5th case), then "
          "Manager.Stop + Shutdown + topics Shutdown, (every 5th case, 50%: 0.6-2.5 s of downtime), a NEW manager and topics provider over the same persistence backend, then publishes, reconnects (+ subscribe to see retained messages), "
          "retained changes, and with 15% per step a SECOND stop/restart cycle. NewManager must return within 10 s. non-trivial = more than one CONNECT; distinct by case JSON.",
     level_text="Theorems (coq/props/C16.v): over every reachable state, after stop+restart a connected durable session has exactly its subscriptions and pending messages (stored-state flag set), a session that was detached already is unchanged "
                "altogether (deadlines and pending will included), a non-durable one is gone; retained messages are unchanged and connections are accepted again; a restored subscription queues what is published afterwards. In the model the persistent part "
                "IS the state that survives: that Stop/Shutdown/NewManager write and read back exactly that (encodings, deadlines, deferred deletions) is what the differential histories check. Partial: subscription options beyond QoS1 + identifier "
                "and QoS2 in-flight state are not in this model (C02/C03 cover in-flight redelivery).",
     level_note=_SESS_NOTE, trusted_base=_SESS_TB,
     assumptions=["persistence backend = vlplugin mem (the only one vendored offline)", "samples are taken >= 250 ms away from timer deadlines"],
)

prop("C20",
     coq=_SESS_COQ + ["props/C20.v"],
     n={"quick": 300, "thorough": 5000, "search": 600},
     shrink_fields=["ops"], shrink_min=1,
     rule="a generated population as for C16 (with wills; every 4th with waits so that timers are pending, fired or about to fire), then Manager.Stop + Shutdown under an 8 s watchdog: Stop must return, every attached connection must be closed "
          "(v5: DISCONNECT 0x8B 'server shutting down' required), wills of the closed connections are observed. Every 30th case (and two corpus cases) drives the WHOLE server instead: server.NewServer with a TCP and a WebSocket listener on loopback, 2-5 connections of the kinds "
          "TCP established / TCP connected but silent / WebSocket established / WebSocket upgraded but silent, then server.Shutdown under a 10 s watchdog: it must return, every connection must be closed, the ports must refuse, and a CONNECT sent on a handshake-stage connection after Shutdown "
          "returned must not be answered. non-trivial = more than one CONNECT or a listener case; distinct by case JSON.",
     level_text="Theorems (coq/props/C20.v): for every population reachable by any history, after Stop no connection is attached, every attached connection has been told, returning is the last thing Stop does, CONNECTs are no longer accepted; "
                "durable sessions keep exactly subscriptions + pending messages, detached ones are untouched (deadlines included), non-durable ones are gone; wills are conserved across the shutdown. That Stop RETURNS is not a theorem about a total function: "
                "it is observed on every case (watchdog). Partial: the listener level (server.Shutdown, transports, accept pool, connections mid-handshake) has no machine of its own - its expected outcome is the oracle lstop in chk/C05chk.v (everything closed, nothing accepts, nothing answered afterwards) "
                "compared with the real server on loopback sockets.",
     level_note=_SESS_NOTE, trusted_base=_SESS_TB,
     assumptions=["Stop counts as hung after 8 s"],
)

prop("C09",
     coq=["gen/Extracted.v", "model/Trie.v", "model/Match.v", "model/LFProto.v", "proofs/LFProofs.v", "model/LFSearch.v", "model/LFShape.v", "proofs/LFSearchProofs.v", "chk/C01chk.v", "chk/C09chk.v", "props/C09.v", "refute/C09.v"],
     n={"quick": 64, "thorough": 600, "search": 200},
     shrink_fields=["rounds"], shrink_min=1,
     rule="4/8 'rounds': 30-70 (thorough 100-300) rounds on the real memlockfree provider; in a round 2-6 operations (Subscribe / UnSubscribe / Retain on a pool of shared and nested filters, every key touched at most once per round) "
          "are issued at the same moment from goroutines of their own and served by the provider's worker goroutines, 0-2 publishes are issued during the round; at quiescence 1-3 probe publishes and sometimes Retained(filter) are compared "
          "with the sequential model applied in any order (distinct keys commute), the concurrent publishes with a lower (untouched subscriptions) and an upper bound; rounds that never complete within 10 s are a deadlock. Round templates aim at "
          "the racy spots: everybody leaves one filter at once, the last subscriber leaves while another arrives at the same / a nested filter. 1/8 'replace': one goroutine publishes 200-600 retained messages (QoS 0 or 1, tags in order, never empty) on one topic while another reads Retained(topic) without pause: "
          "no read may come back empty (in every linearization the topic has a retained message at every moment) and the tags never go back; the final state is compared with the model. 3/8 'gated': the three schedules of refute/C09.v forced on the provider through the subscriber's "
          "Hash() and the OnCleanUnsubscribe callback. non-trivial = a round with more than one operation or a gated schedule; distinct by case JSON.",
     level_text="Theorems (coq/props/C09.v): the translator reads topics/memlockfree/node.go on every run and reports per structure-changing method whether it takes the structure mutex first (obligation C09_writers_locked over gen/Extracted.v); "
                "for the protocol machine model/LFProto.v (one atomic access per step: counters, maps, remove flag, WaitGroup, callback; arbitrary scheduler) started in that mode: in EVERY reachable configuration at most one operation is in progress "
                "and while the mutex is held a step of any other thread changes nothing - every execution is a sequential composition of whole operations; whole operations on pairwise distinct keys commute on the abstract subscription map (any permutation). "
                "refute/C09.v: without the mutex three schedules leave the index in a state no sequential order produces (acknowledged subscription in a detached leaf; double clean-up prunes a sibling; retry from a pruned parent) - all three reproduced on "
                "the implementation before the repair. The lock-free SEARCH beside the writers (model/LFSearch.v: a reader without lock, one children.Load per level, then the node's subs, interleaved with the writers' accesses in ANY order): "
                "C09_search_finds_acknowledged_subscription and C09_search_misses_unsubscribed - from any reachable configuration, a subscription in place that no unfinished UNSUBSCRIBE targets is found and a subscriber not registered that no unfinished SUBSCRIBE registers is not, "
                "whatever is created or pruned around (C09_index_invariant: tree shape, unreachable nodes are empty, counters bound the sets). C09_protocol_shape: the translator re-reads the ORDER of atomic accesses and the shared-state conditions of leafInsertNode, "
                "subscriptionInsert/Remove, nodesCleanup and the search from node.go and the theorem requires them to be the ones the machine was written against. Partial: an operation on the very pair (path, subscriber) overlapping a search may be seen or not (both are linearizations, no claim); "
                "retained messages are not in the protocol machine, except C09_retained_replaced_in_one_store (translator): provider.retain removes only for an empty payload, so the lock-free readers never find a replaced topic empty; sequential correctness of operations and search is C01/C07.",
     level_note="Trusted: Coq kernel + vm_compute; tools/goextract (lock-discipline reader: first statements of the four writers); the hand-written protocol machine (its three refuting schedules and their locked counterparts are replayed on the implementation); "
                "Go's sync.Mutex / sync.Map / atomic semantics; the Go scheduler for the concurrent rounds (a sample of interleavings, not an enumeration).",
     trusted_base=["tools/goextract: lock discipline of subscriptionInsert / subscriptionRemove / retainInsert / retainRemove; order of atomic accesses (accessShape) of the protocol functions", "Go sync.Mutex, sync.Map and sync/atomic semantics", "Go scheduler (concurrent rounds sample interleavings)"],
     assumptions=["one atomic access of the Go code = one step of LFProto / LFSearch", "searches are readers: they never unlink (node.getRetained clears an expired message only)", "sync.Map.Range visits a key that is present during the whole call and none that is absent during the whole call"],
)
