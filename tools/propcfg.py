# Per-property configuration of ./check
PROPS = {}

def prop(id, **kw):
    kw["id"] = id
    kw.setdefault("harness", id)
    PROPS[id] = kw

prop("C17",
     coq=["model/WS.v", "proofs/WSProofs.v", "chk/C17chk.v", "props/C17.v", "refute/C17.v"],
     n={"quick": 300, "thorough": 6000, "search": 1500},
     shrink_fields=["frames", "sizes"],
     rule="stream cases: 1-8 binary frames with sizes from {0,1,2,b-1,b,b+1,2b,3b+1,random} against read buffers b in {1,2,3,7,16,64} "
          "(constant or varying per read), client sends frame k+1 only when all bytes sent so far were read (so a read that waits for a "
          "further frame although bytes are available is observed as Blocked); every 10th case is a handshake with a sub-protocol value "
          "from a 13-word list. non-trivial = some frame larger than the read buffer (remainder path) or a handshake; distinct by case JSON.",
     level_text="Theorems (coq/props/C17.v) over the executable model of wsConn.Read: for every list of frames and every list of read-buffer sizes, "
                "bytes read ++ buffered remainder ++ pending frames = concatenation of the frame payloads (nothing lost, duplicated, reordered), completeness after EOF "
                "or enough non-empty reads, and a read with buffered bytes returns >=1 byte without consuming a frame. The model is tied to transport/websocket.go by "
                "a differential run over a real loopback WebSocket listener (transport.NewWS). Partial: the sub-protocol refusal is an HTTP behaviour compared with a word list, not proved.",
     level_note="Trusted: Coq kernel + vm_compute; hand translation of wsConn.Read (checked on every run against the implementation); gobwas/ws framing; Go net stack.",
     trusted_base=["gobwas/ws client and server framing", "HTTP handshake (tested, not proved)"],
     assumptions=["frames arrive in order on one TCP connection", "sub-protocol acceptance is compared with a word list, not proved"],
)
