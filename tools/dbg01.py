#!/usr/bin/env python3
import json, subprocess, sys, os
out, idx = sys.argv[1], int(sys.argv[2])
recs = json.load(open(os.path.join(out, "cases.json")))
src = open(os.path.join(out, "cases_%d.v" % (idx // 500))).read()
hdr = src[:src.index("Definition cases")]
body = src[src.index("[\n", src.index("Definition cases")) + 2:]
lines = [l for l in body.split("\n") if l.strip().startswith("(")]
term = lines[idx % 500].strip().rstrip(";")
v = hdr + "\nDefinition c := %s.\nSet Printing Width 200.\nEval vm_compute in (first_bad 0 empty_node [] [] (hops c)).\n" % term
open("/tmp/dbg01.v", "w").write(v)
o = subprocess.run(["coqc", "-Q", "/verif/coq", "VMQ", "/tmp/dbg01.v"], capture_output=True, text=True).stdout
print(o)
import re
m = re.search(r"Some \((\d+)", o)
ops = recs[idx]["case"]["ops"]; steps = recs[idx]["obs"]["steps"]
print(recs[idx]["case"]["provider"])
if m:
    k = int(m.group(1))
    for i in range(0, k + 1): print(i, json.dumps(ops[i]), json.dumps(steps[i]))
