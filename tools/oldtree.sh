#!/bin/bash
# usage: oldtree.sh <commit> <prop> <case.json>...   runs corpus cases against /repo at <commit> (scratch worktree, removed afterwards)
set -u
commit=$1; prop=$2; shift 2
export GOFLAGS=-mod=mod GOPROXY=off GOSUMDB=off GOTOOLCHAIN=local
wt=/tmp/wt-old-$$; h=/tmp/h-old-$$; out=/tmp/o-old-$$
git -C /repo worktree add -q --detach $wt $commit || exit 2
mkdir -p $h && cp /verif/harness/*.go /verif/harness/go.mod $h/ && cp /repo/go.sum $h/
sed -i "s#=> /repo#=> $wt#" $h/go.mod
(cd $h && go build -o $h/vh . 2>&1 | tail -5)
python3 -c "
import sys,json
print(json.dumps([json.load(open(f)) for f in sys.argv[1:]]))" "$@" > $h/cases.json
timeout 400 $h/vh run -prop $prop -cases $h/cases.json -out $out >/dev/null 2>$h/err.txt; rc=$?
if [ -f $out/cases_0.v ]; then (cd $out && coqc -Q /verif/coq VMQ cases_0.v 2>&1 | tail -2 | tr '\n' ' '); python3 -c "
import json
print([ (x['obs'].get('err') or '')[:70] for x in json.load(open('$out/cases.json'))])"; else echo "harness rc=$rc: $(grep -m1 '^panic\|^fatal' $h/err.txt)"; fi
git -C /repo worktree remove --force $wt; rm -rf $h $out
