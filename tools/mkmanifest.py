#!/usr/bin/env python3
"""Writes /verif/MANIFEST.json from tools/propcfg.py (so the manifest is always in step with ./check)."""
import json, os, sys
sys.path.insert(0, os.path.dirname(os.path.abspath(__file__)))
from propcfg import PROPS
ALL = ["C%02d" % i for i in range(1, 21)]
checks = []
for pid in ALL:
    if pid not in PROPS or PROPS[pid].get("unclaimed"):
        continue
    c = PROPS[pid]
    checks.append({
        "property_id": pid,
        "quick_cmd": "./check %s --tier quick" % pid,
        "thorough_cmd": "./check %s --tier thorough" % pid,
        "evidence_file": "/verif/evidence/%s.json" % pid,
        "replay_cmd_template": "./check %s --replay {path}" % pid,
        "engine": "coq-proof+correspondence",
        "level_claimed": {"category": "proof", "text": c["level_text"], "design_ref": c.get("design_ref", "DESIGN.md §3 " + pid)},
        "level_note": c["level_note"],
        "technique": c.get("technique", "machine-checked proof in Coq 8.16 of an executable model + differential correspondence with the Go implementation"),
    })
na = [{"property_id": pid, "reason": PROPS.get(pid, {}).get("na_reason", "not claimed yet: model/proof/correspondence for this property are not built in the committed tree")}
      for pid in ALL if pid not in PROPS or PROPS[pid].get("unclaimed")]
m = {
    "version": 1,
    "setup_cmd": "./setup.sh",
    "hooks": {
        "guard": "verif",
        "enable": "go build -tags verif (the harness module replaces github.com/VolantMQ/volantmq by /repo)",
        "baseline_off_cmd": "/verif/tools/baseline.sh",
        "source_commits": [l.strip() for l in open(os.path.join(os.path.dirname(__file__), "..", "HOOK_COMMITS")).read().split()] if os.path.exists(os.path.join(os.path.dirname(__file__), "..", "HOOK_COMMITS")) else [],
        "add_only": True,
    },
    "engines": [
        {"name": "coq-proof+correspondence", "path": "/verif/check",
         "serves_properties": [c["property_id"] for c in checks],
         "kind_free_text": "Coq 8.16.1 theorems over executable Gallina models (coq/), translator tools/goextract regenerating coq/gen/Extracted.v from /repo, Go harness driving the real implementation, model evaluated by vm_compute inside Coq on the same cases"}
    ],
    "checks": checks,
    "not_applicable": na,
    "notes": "See DESIGN.md. KNOWN_FINDINGS.json lists open/fixed findings; evidence/replay/ holds replay files written by failing runs.",
}
json.dump(m, open(os.path.join(os.path.dirname(__file__), "..", "MANIFEST.json"), "w"), indent=1)
print("claimed:", [c["property_id"] for c in checks])
